package main

// Transport-level identity: MultiplexTransport.upgrade on a connection the checker owns. The remote
// side is a real SecretConnection plus a NodeInfo of the checker's choosing (matrix), or the active
// reflecting attacker of refsts.go.

import (
	"bytes"
	"crypto/ecdsa"
	"errors"
	"fmt"
	"net"
	"runtime/debug"

	"github.com/kardiachain/go-kardia/lib/p2p"
	"github.com/kardiachain/go-kardia/lib/p2p/conn"
	"github.com/kardiachain/go-kardia/lib/protoio"
	kp2p "github.com/kardiachain/go-kardia/proto/kardiachain/p2p"
)

type tSpec struct {
	Dial     string `json:"dial"`     // inbound | same | other
	Reported string `json:"reported"` // auth | third | node
	Key      string `json:"key"`      // other | self
	Compat   string `json:"compat"`   // ok | network | block-version | no-common-channel
	Valid    string `json:"valid"`    // ok | empty-moniker | duplicate-channels | bad-listen-addr | too-many-channels
}

func (t tSpec) class() string {
	return fmt.Sprintf("transport:dial=%s,reported-id=%s,key=%s,nodeinfo=%s/%s", t.Dial, t.Reported, t.Key, t.Compat, t.Valid)
}

func tSpecs() []tSpec {
	var out []tSpec
	for _, d := range []string{"inbound", "same", "other"} {
		for _, rep := range []string{"auth", "third", "node"} {
			for _, k := range []string{"other", "self"} {
				if k == "self" && rep == "node" {
					continue // identical to reported=auth
				}
				for _, c := range []string{"ok", "network", "block-version", "no-common-channel"} {
					for _, v := range []string{"ok", "empty-moniker", "duplicate-channels", "bad-listen-addr", "too-many-channels"} {
						out = append(out, tSpec{d, rep, k, c, v})
					}
				}
			}
		}
	}
	return out
}

func (t tSpec) mustAccept() bool {
	return (t.Dial == "inbound" || t.Dial == "same") && t.Reported == "auth" && t.Key == "other" && t.Compat == "ok" && t.Valid == "ok"
}

func baseNodeInfo(id p2p.ID) p2p.DefaultNodeInfo {
	return p2p.DefaultNodeInfo{
		ProtocolVersion: p2p.NewProtocolVersion(1, 1, 0),
		DefaultNodeID:   id,
		ListenAddr:      "127.0.0.1:26656",
		Network:         "verif-net",
		Version:         "1.0.0",
		Channels:        []byte{0x20, 0x21, 0x30},
		Moniker:         "verif-node",
	}
}

func newTransport(nodeKey *ecdsa.PrivateKey) *p2p.MultiplexTransport {
	ni := baseNodeInfo(p2p.PubKeyToID(nodeKey.PublicKey))
	return p2p.NewMultiplexTransport(ni, p2p.NodeKey{PrivKey: nodeKey}, conn.DefaulKAIConnConfig())
}

type upgradeResult struct {
	sc       *conn.SecretConnection
	ni       p2p.NodeInfo
	err      error
	panicked string
}

func goUpgrade(mt *p2p.MultiplexTransport, c net.Conn, dialed *p2p.NetAddress) <-chan upgradeResult {
	ch := make(chan upgradeResult, 1)
	go func() {
		var res upgradeResult
		defer func() {
			if p := recover(); p != nil {
				res.panicked = fmt.Sprintf("%v\n%s", p, debug.Stack())
			}
			ch <- res
		}()
		res.sc, res.ni, res.err = mt.VerifC20Upgrade(c, dialed)
	}()
	return ch
}

func runTransport(t tSpec) (fs []finding, outcome string) {
	class := t.class()
	add := func(oracle, what string) { fs = append(fs, finding{sig(class, oracle), what}) }
	nodeKey, otherKey, thirdKey := keys[0], keys[1], keys[2]
	peerKey := otherKey
	if t.Key == "self" {
		peerKey = nodeKey
	}
	nodeID := p2p.PubKeyToID(nodeKey.PublicKey)
	authID := p2p.PubKeyToID(peerKey.PublicKey)
	thirdID := p2p.PubKeyToID(thirdKey.PublicKey)

	pi := baseNodeInfo(authID)
	switch t.Reported {
	case "third":
		pi.DefaultNodeID = thirdID
	case "node":
		pi.DefaultNodeID = nodeID
	}
	pi.Moniker = "verif-peer"
	pi.ListenAddr = "127.0.0.1:26657"
	switch t.Compat {
	case "network":
		pi.Network = "other-net"
	case "block-version":
		pi.ProtocolVersion.Block = 2
	case "no-common-channel":
		pi.Channels = []byte{0x40, 0x41}
	}
	switch t.Valid {
	case "empty-moniker":
		pi.Moniker = ""
	case "duplicate-channels":
		pi.Channels = append(append([]byte(nil), pi.Channels...), pi.Channels[0])
	case "bad-listen-addr":
		pi.ListenAddr = "not-an-address"
	case "too-many-channels":
		pi.Channels = nil
		for i := 0; i < 17; i++ {
			pi.Channels = append(pi.Channels, byte(0x20+i))
		}
	}
	var dialed *p2p.NetAddress
	switch t.Dial {
	case "same":
		dialed = &p2p.NetAddress{ID: authID, IP: net.IPv4(127, 0, 0, 1), Port: 26657}
	case "other":
		dialed = &p2p.NetAddress{ID: thirdID, IP: net.IPv4(127, 0, 0, 1), Port: 26657}
	}

	p := newPipe()
	defer p.closeAll()
	mt := newTransport(nodeKey)
	chN := goUpgrade(mt, p.a, dialed)

	// the remote node: a real secret connection, then its NodeInfo, then it reads ours
	type peerRes struct {
		scErr, wErr, rErr error
		got               kp2p.DefaultNodeInfo
		panicked          string
	}
	release := make(chan struct{})
	chP := make(chan peerRes, 1)
	go func() {
		var pr peerRes
		defer func() {
			if pv := recover(); pv != nil {
				pr.panicked = fmt.Sprint(pv)
			}
			chP <- pr
		}()
		sc, err := conn.MakeSecretConnection(p.b, peerKey)
		if err != nil {
			pr.scErr = err
			return
		}
		_, pr.wErr = protoio.NewDelimitedWriter(sc).WriteMsg(pi.ToProto())
		pr.rErr = protoio.NewDelimitedReader(sc, p2p.MaxNodeInfoSize()).ReadMsg(&pr.got)
		<-release
	}()
	// The node either accepts (it has then read the peer's info; the peer gets the node's info, which
	// the node writes unconditionally) or rejects and closes the connection (the peer's reads end).
	res := <-chN
	if res.err != nil || res.panicked != "" {
		p.closeAll() // upgrade closes on rejection; make sure the peer cannot wait on a half-open pipe
	}
	close(release)
	pr := <-chP
	p.closeAll()

	if res.panicked != "" || isPanicErr(res.err) {
		add("panic", "upgrade panicked: "+firstLine(res.panicked)+fmt.Sprint(res.err))
	}
	if pr.panicked != "" {
		add("panic", "peer side panicked: "+pr.panicked)
	}
	accepted := res.err == nil && res.panicked == ""
	if accepted {
		outcome = "accepted"
		if res.sc == nil || !pubEq(res.sc.RemotePubKey(), peerKey.PublicKey) || res.ni == nil || res.ni.ID() != authID {
			add("wrong-remote-key", "accepted peer: RemotePubKey()/NodeInfo.ID() are not the authenticated key")
		}
	} else {
		outcome = "rejected"
		var rej p2p.ErrRejected
		if errors.As(res.err, &rej) {
			switch {
			case rej.IsSelf():
				outcome += ":self"
			case rej.IsIncompatible():
				outcome += ":incompatible"
			case rej.IsNodeInfoInvalid():
				outcome += ":nodeinfo-invalid"
			case rej.IsAuthFailure():
				outcome += ":auth"
			}
		}
	}
	switch {
	case accepted && !t.mustAccept():
		add("inconsistent-peer-accepted", "upgrade accepted a peer that must be rejected")
	case !accepted && t.mustAccept():
		add("consistent-peer-rejected", fmt.Sprintf("upgrade rejected a fully consistent, compatible, foreign peer: %v (peer side: sc=%v w=%v r=%v)", res.err, pr.scErr, pr.wErr, pr.rErr))
	}
	return fs, outcome
}

// ---------------------------------------------------------------------------------------------
// the reflecting attacker against the transport

type reflectSpec struct {
	Dial     string `json:"dial"`      // inbound | same(=node's own id, the only id the attacker can authenticate as) | other
	NodeInfo string `json:"node_info"` // reflected (the node's own NodeInfo sent back) | own-id (attacker's id) | none
	Lower    bool   `json:"attacker_eph_lower"`
}

func reflectSpecs() []reflectSpec {
	var out []reflectSpec
	for _, d := range []string{"inbound", "same", "other"} {
		for _, ni := range []string{"reflected", "own-id", "none"} {
			for _, lo := range []bool{true, false} {
				out = append(out, reflectSpec{d, ni, lo})
			}
		}
	}
	return out
}

// runReflect: the attacker completes the secret-connection handshake by reflecting the node's own
// authentication message, then answers the NodeInfo exchange. It holds no private key of any
// identity it claims, so the upgrade must never accept.
func runReflect(sp reflectSpec) (fs []finding, outcome string) {
	class := fmt.Sprintf("transport-reflection:dial=%s,nodeinfo=%s", sp.Dial, sp.NodeInfo)
	add := func(oracle, what string) { fs = append(fs, finding{sig(class, oracle), what}) }
	nodeKey, attackerKey, thirdKey := keys[0], keys[2], keys[1]
	nodeID := p2p.PubKeyToID(nodeKey.PublicKey)
	var dialed *p2p.NetAddress
	switch sp.Dial {
	case "same":
		dialed = &p2p.NetAddress{ID: nodeID, IP: net.IPv4(127, 0, 0, 1), Port: 26657}
	case "other":
		dialed = &p2p.NetAddress{ID: p2p.PubKeyToID(thirdKey.PublicKey), IP: net.IPv4(127, 0, 0, 1), Port: 26657}
	}
	mt := newTransport(nodeKey)
	victim := func(c net.Conn) (res victimResult) {
		sc, ni, err := mt.VerifC20Upgrade(c, dialed)
		res.sc, res.err, res.extra = sc, err, ni
		return
	}
	s, early := startEvil(victim, sp.Lower, nil)
	defer s.close()
	if early != nil {
		add("clean-session-failed", "the node did not get through the key exchange with a protocol-conforming peer: "+early.String())
		return fs, "no-key-exchange"
	}
	bz, err := protoio.MarshalDelimited(&s.vAuth)
	if err != nil {
		panic(err)
	}
	s.p.ab.feed(s.e.seal(bz))
	var res victimResult
	if sp.NodeInfo == "none" {
		res = s.finish(nil)
	} else {
		// After accepting the reflected auth message the node writes its NodeInfo unconditionally
		// (third unit), unless it already rejected (dialled id mismatch) and returned.
		if !s.p.ba.waitUnits(3) {
			res = s.finish(nil)
		} else {
			var reply []byte
			if sp.NodeInfo == "reflected" {
				var plain []byte
				for _, u := range s.p.ba.unitsCopy()[2:] {
					pl, err := s.e.openFrame(u)
					if err != nil {
						add("clean-session-failed", "the node's NodeInfo frame does not open with the session key")
						break
					}
					plain = append(plain, pl...)
				}
				reply = plain
			} else {
				ni := baseNodeInfo(p2p.PubKeyToID(attackerKey.PublicKey))
				ni.Moniker = "attacker"
				reply, _ = protoio.MarshalDelimited(ni.ToProto())
			}
			res = s.finish(s.e.seal(reply))
		}
	}
	if res.panicked != "" || isPanicErr(res.err) {
		add("panic", "upgrade panicked: "+res.String())
	}
	if res.ok() {
		add("authenticated-without-private-key", "upgrade accepted a peer that only reflected the node's own authentication message")
		return fs, "accepted"
	}
	outcome = "rejected:" + errClass(res.err)
	var rej p2p.ErrRejected
	if errors.As(res.err, &rej) && rej.IsSelf() {
		outcome = "rejected:self"
	}
	if bytes.Contains([]byte(fmt.Sprint(res.err)), []byte("dialed ID")) {
		outcome = "rejected:dialed-id"
	}
	return fs, outcome
}
