package main

// The man-in-the-middle menu: what the pipe does to the P->V stream of one session of
// ephemeral-key message (unit 0) + auth frame (unit 1) + 4 data frames (units 2..5).

import (
	"fmt"
)

type manip struct {
	Kind string `json:"kind"`
	K    int    `json:"k"`
	J    int    `json:"j,omitempty"`
	Pos  int    `json:"pos,omitempty"`
	Bit  int    `json:"bit,omitempty"`
	Eph  string `json:"eph,omitempty"`
}

func (m manip) String() string {
	return fmt.Sprintf("%s(k=%d,j=%d,pos=%d,bit=%d,eph=%s)", m.Kind, m.K, m.J, m.Pos, m.Bit, m.Eph)
}

const nUnits = 6

func unitType(k int) string {
	switch {
	case k == 0:
		return "eph"
	case k == 1:
		return "auth-frame"
	case k == nUnits-1:
		return "last-data-frame"
	case k >= nUnits:
		return "end"
	}
	return "data-frame"
}

func region(k, pos int) string {
	if k == 0 {
		switch {
		case pos == 0:
			return "len-prefix"
		case pos <= 2:
			return "proto-header"
		}
		return "key"
	}
	switch {
	case pos < lenSize:
		return "header"
	case pos < plainFrame:
		return "body"
	}
	return "tag"
}

// early: the manipulation changes the first bytes V sees (the ephemeral-key message itself).
func (m manip) early() bool {
	switch m.Kind {
	case "cross-all", "eph-replace":
		return true
	case "flip", "drop", "cut", "swap", "trunc", "trunc-cut", "cross-replace", "cross-insert":
		return m.K == 0
	}
	return false
}

// touchesHandshake: bytes at or before the end of the auth frame are changed.
func (m manip) touchesHandshake() bool {
	switch m.Kind {
	case "none":
		return false
	case "cross-all", "eph-replace":
		return true
	case "swap":
		return m.K <= 1
	case "replay-insert", "cross-insert":
		return m.K <= 1
	}
	return m.K <= 1
}

// class is the input class named in signatures and coverage keys.
func (m manip) class(_ int) string {
	switch m.Kind {
	case "none":
		return "mitm:none"
	case "flip":
		return "mitm:flip:" + unitType(m.K) + ":" + region(m.K, m.Pos)
	case "swap":
		return "mitm:swap:" + unitType(m.K) + "+" + unitType(m.K+1)
	case "replay-insert":
		return "mitm:replay-same-session:insert-" + unitType(m.J) + "-before-" + unitType(m.K)
	case "replay-replace":
		return "mitm:replay-same-session:" + unitType(m.J) + "-instead-of-" + unitType(m.K)
	case "cross-replace":
		return "mitm:replay-earlier-session:instead-of-" + unitType(m.K)
	case "cross-insert":
		return "mitm:replay-earlier-session:insert-before-" + unitType(m.K)
	case "cross-all":
		return "mitm:replay-earlier-session:whole-stream"
	case "eph-replace":
		if len(m.Eph) > 9 && m.Eph[:9] == "low-order" {
			return "mitm:eph-replace:low-order-point"
		}
		return "mitm:eph-replace:" + m.Eph
	case "trunc", "trunc-cut":
		return "mitm:" + m.Kind + ":" + unitType(m.K)
	}
	return "mitm:" + m.Kind + ":" + unitType(m.K)
}

var lowOrderPoints = [][32]byte{
	{},
	{1},
	{0xe0, 0xeb, 0x7a, 0x7c, 0x3b, 0x41, 0xb8, 0xae, 0x16, 0x56, 0xe3, 0xfa, 0xf1, 0x9f, 0xc4, 0x6a, 0xda, 0x09, 0x8d, 0xeb, 0x9c, 0x32, 0xb1, 0xfd, 0x86, 0x62, 0x05, 0x16, 0x5f, 0x49, 0xb8, 0x00},
	{0x5f, 0x9c, 0x95, 0xbc, 0xa3, 0x50, 0x8c, 0x24, 0xb1, 0xd0, 0xb1, 0x55, 0x9c, 0x83, 0xef, 0x5b, 0x04, 0x44, 0x5c, 0xc4, 0x58, 0x1c, 0x8e, 0x86, 0xd8, 0x22, 0x4e, 0xdd, 0xd0, 0x9f, 0x11, 0x57},
	ff32(0xec, 0x7f), ff32(0xed, 0x7f), ff32(0xee, 0x7f),
	{0xcd, 0xeb, 0x7a, 0x7c, 0x3b, 0x41, 0xb8, 0xae, 0x16, 0x56, 0xe3, 0xfa, 0xf1, 0x9f, 0xc4, 0x6a, 0xda, 0x09, 0x8d, 0xeb, 0x9c, 0x32, 0xb1, 0xfd, 0x86, 0x62, 0x05, 0x16, 0x5f, 0x49, 0xb8, 0x80},
	{0x4c, 0x9c, 0x95, 0xbc, 0xa3, 0x50, 0x8c, 0x24, 0xb1, 0xd0, 0xb1, 0x55, 0x9c, 0x83, 0xef, 0x5b, 0x04, 0x44, 0x5c, 0xc4, 0x58, 0x1c, 0x8e, 0x86, 0xd8, 0x22, 0x4e, 0xdd, 0xd0, 0x9f, 0x11, 0xd7},
	ff32(0xd9, 0xff), ff32(0xda, 0xff), ff32(0xdb, 0xff),
}

func ff32(first, last byte) (b [32]byte) {
	for i := range b {
		b[i] = 0xff
	}
	b[0], b[31] = first, last
	return
}

func ephByName(name string, prev [][]byte, vEphUnit []byte) []byte {
	var idx int
	if n, _ := fmt.Sscanf(name, "low-order-%d", &idx); n == 1 && idx >= 0 && idx < len(lowOrderPoints) {
		return append([]byte(nil), lowOrderPoints[idx][:]...)
	}
	switch name {
	case "victims-own-eph":
		if e, ok := ephOf(vEphUnit); ok {
			return append([]byte(nil), e...)
		}
	case "all-ff":
		b := ff32(0xff, 0xff)
		return b[:]
	}
	return make([]byte, 32)
}

// apply builds the byte stream V gets from the units P wrote.
func (m manip) apply(units [][]byte, prev [][]byte, vEphUnit []byte) []byte {
	u := make([][]byte, len(units))
	copy(u, units)
	cp := func(b []byte) []byte { return append([]byte(nil), b...) }
	has := func(k int) bool { return k >= 0 && k < len(u) }
	hasPrev := func(k int) bool { return k >= 0 && k < len(prev) }
	insert := func(k int, x []byte) {
		if k > len(u) {
			k = len(u)
		}
		u = append(u[:k:k], append([][]byte{x}, u[k:]...)...)
	}
	switch m.Kind {
	case "none":
	case "flip":
		if has(m.K) && m.Pos < len(u[m.K]) {
			x := cp(u[m.K])
			x[m.Pos] ^= 1 << uint(m.Bit)
			u[m.K] = x
		}
	case "drop":
		if has(m.K) {
			u = append(u[:m.K:m.K], u[m.K+1:]...)
		}
	case "cut":
		if has(m.K) {
			u = u[:m.K]
		}
	case "dup":
		if has(m.K) {
			insert(m.K+1, u[m.K])
		}
	case "swap":
		if has(m.K) && has(m.K+1) {
			u[m.K], u[m.K+1] = u[m.K+1], u[m.K]
		}
	case "trunc":
		if has(m.K) && m.Pos < len(u[m.K]) {
			u[m.K] = u[m.K][:m.Pos]
		}
	case "trunc-cut":
		if has(m.K) && m.Pos < len(u[m.K]) {
			u[m.K] = u[m.K][:m.Pos]
			u = u[:m.K+1]
		}
	case "replay-insert":
		if has(m.J) {
			insert(m.K, u[m.J])
		}
	case "replay-replace":
		if has(m.J) && has(m.K) {
			u[m.K] = u[m.J]
		}
	case "cross-replace":
		if has(m.K) && hasPrev(m.K) {
			u[m.K] = prev[m.K]
		}
	case "cross-insert":
		if hasPrev(m.K) {
			insert(m.K, prev[m.K])
		} else if len(prev) > 0 && m.K >= len(prev) {
			insert(m.K, prev[len(prev)-1])
		}
	case "cross-all":
		u = append([][]byte(nil), prev...)
	case "eph-replace":
		if has(0) && len(u[0]) == 35 {
			x := cp(u[0])
			copy(x[3:], ephByName(m.Eph, prev, vEphUnit))
			u[0] = x
		}
	default:
		panic("harness: unknown manipulation " + m.Kind)
	}
	return concat(u...)
}

// allManips is the enumerated menu.
func allManips(thorough bool) []manip {
	var ms []manip
	ms = append(ms, manip{Kind: "none"})
	bits := []int{0, 7}
	if thorough {
		bits = []int{0, 1, 2, 3, 4, 5, 6, 7}
	}
	for k := 0; k < nUnits; k++ {
		var poss []int
		if k == 0 {
			poss = []int{0, 1, 2, 3, 18, 34}
		} else {
			poss = []int{0, 2, 3, 4, 4 + dataMax/2, plainFrame - 1, plainFrame, plainFrame + 8, frameSize - 1}
			if k == nUnits-1 {
				poss = append(poss, 4+800) // inside the zero padding of the short last frame
			}
		}
		for _, p := range poss {
			for _, b := range bits {
				ms = append(ms, manip{Kind: "flip", K: k, Pos: p, Bit: b})
			}
		}
		ulen := frameSize
		if k == 0 {
			ulen = 35
		}
		cuts := []int{1, ulen / 2, ulen - 1}
		if k > 0 {
			cuts = append(cuts, plainFrame) // the tag alone is cut off
		}
		ms = append(ms, manip{Kind: "drop", K: k}, manip{Kind: "cut", K: k}, manip{Kind: "dup", K: k})
		if k+1 < nUnits {
			ms = append(ms, manip{Kind: "swap", K: k})
		}
		for _, t := range cuts {
			ms = append(ms, manip{Kind: "trunc", K: k, Pos: t}, manip{Kind: "trunc-cut", K: k, Pos: t})
		}
		ms = append(ms, manip{Kind: "cross-replace", K: k})
	}
	for k := 1; k <= nUnits; k++ {
		for j := 0; j < k; j++ {
			if j < k-1 {
				ms = append(ms, manip{Kind: "replay-insert", J: j, K: k})
			}
			if k < nUnits {
				ms = append(ms, manip{Kind: "replay-replace", J: j, K: k})
			}
		}
	}
	for k := 0; k <= nUnits; k++ {
		ms = append(ms, manip{Kind: "cross-insert", K: k})
	}
	ms = append(ms, manip{Kind: "cross-all"})
	for i := range lowOrderPoints {
		ms = append(ms, manip{Kind: "eph-replace", Eph: fmt.Sprintf("low-order-%d", i)})
	}
	ms = append(ms, manip{Kind: "eph-replace", Eph: "victims-own-eph"}, manip{Kind: "eph-replace", Eph: "all-ff"})
	return ms
}
