package main

// MConnection: the sending half is a real, NOT started MConnection driven synchronously through the
// in-package accessors (enqueue / send one packet / flush in an order the checker owns); the byte
// stream it produces is handed to a real, Start()ed MConnection whose inbox is complete before it
// starts and ends with EOF, so its receive routine runs to the end without ever blocking and reports
// through onError exactly once (the checker waits for that callback, never for time).
// A small reference receiver (the specification: append per channel, deliver on EOF, refuse when the
// assembled size would exceed the capacity, refuse unknown channels) parses the same byte stream.

import (
	"bytes"
	"encoding/binary"
	"fmt"
	"io"
	"net"
	"strings"
	"sync"

	"github.com/kardiachain/go-kardia/lib/log"
	"github.com/kardiachain/go-kardia/lib/p2p/conn"
	kp2p "github.com/kardiachain/go-kardia/proto/kardiachain/p2p"
)

var chanIDs = []byte{0x01, 0x02, 0x03}
var chanPrio = []int{1, 3, 7}

type mMsg struct {
	Ch   byte `json:"ch"`
	Size int  `json:"size"`
}

type mconnSpec struct {
	Msgs      []mMsg `json:"msgs"`
	Ops       string `json:"ops"` // E enqueue next message, S send one packet, B the send routine's batch step, F flush, D send until exhausted; a final D F is implied
	QueueCap  int    `json:"queue_cap"`
	ReadChunk int    `json:"read_chunk"` // 0: whole stream at once; -1: as written (one chunk per flush); n: at most n bytes per Read
	Capacity  int    `json:"capacity"`   // RecvMessageCapacity (0 = the repository's default)
	Stack     bool   `json:"stack"`      // run the stream through a real SecretConnection pair
	Raw       string `json:"raw"`        // non-empty: a hand-made packet stream instead of a sender (rawStream)
	Param     int    `json:"param"`

	chunks [][]byte // not serialised: a recorded wire stream to hand to the receiving half (flushstop.go)
}

func mconnConfig() conn.MConnConfig {
	cfg := conn.DefaulKAIConnConfig()
	cfg.SendRate = 0 // flow-rate throttling is wall-clock driven and not part of the property
	cfg.RecvRate = 0
	return cfg
}

func maxPayload() int { return mconnConfig().MaxPacketMsgPayloadSize }

func (s mconnSpec) capacity() int {
	if s.Capacity > 0 {
		return s.Capacity
	}
	return 22020096 // checked against the real refusal boundary by the default-capacity cases
}

func descs(s mconnSpec) []*conn.ChannelDescriptor {
	var ds []*conn.ChannelDescriptor
	for i, id := range chanIDs {
		ds = append(ds, &conn.ChannelDescriptor{ID: id, Priority: chanPrio[i], SendQueueCapacity: s.QueueCap, RecvMessageCapacity: s.Capacity})
	}
	return ds
}

func sizeName(n, capacity int) string {
	mp := maxPayload()
	switch {
	case n == 0:
		return "0"
	case n == 1:
		return "1"
	case n == mp-1:
		return "maxPayload-1"
	case n == mp:
		return "maxPayload"
	case n == mp+1:
		return "maxPayload+1"
	case n == 3*mp:
		return "3*maxPayload"
	case n == capacity:
		return "capacity"
	case n == capacity+1:
		return "capacity+1"
	case n > capacity:
		return ">capacity"
	}
	return "other"
}

var msgCache sync.Map

// msgBytes is the content of the i-th message of a case (read-only, shared between cases).
func msgBytes(i int, m mMsg) []byte {
	k := [3]int{i, int(m.Ch), m.Size}
	if v, ok := msgCache.Load(k); ok {
		return v.([]byte)
	}
	b := makeMsgBytes(i, m)
	if m.Size <= 1<<16 {
		msgCache.Store(k, b)
	}
	return b
}

func makeMsgBytes(i int, m mMsg) []byte {
	b := make([]byte, m.Size)
	for j := range b {
		b[j] = byte(i*53 + int(m.Ch)*17 + j*5 + (j >> 8) + 1)
	}
	return b
}

type delivery struct {
	ch   byte
	data []byte
}

// ---------------------------------------------------------------------------------------------
// reference receiver

type refRecv struct {
	delivered []delivery
	end       string // eof | capacity | unknown-channel | garbage
	endCh     int32
	partial   map[byte]int
}

func parsePackets(stream []byte) (pkts []kp2p.Packet, garbage bool) {
	off := 0
	for off < len(stream) {
		l, n := binary.Uvarint(stream[off:])
		if n <= 0 || off+n+int(l) > len(stream) {
			return pkts, true
		}
		var p kp2p.Packet
		if err := p.Unmarshal(stream[off+n : off+n+int(l)]); err != nil {
			return pkts, true
		}
		pkts = append(pkts, p)
		off += n + int(l)
	}
	return pkts, false
}

func referenceReceive(pkts []kp2p.Packet, garbage bool, capacity int, enforce bool) refRecv {
	rr := refRecv{partial: map[byte]int{}}
	bufs := map[byte][]byte{}
	known := map[byte]bool{}
	for _, id := range chanIDs {
		known[id] = true
	}
	for _, p := range pkts {
		pm, ok := p.Sum.(*kp2p.Packet_PacketMsg)
		if !ok {
			if p.Sum == nil {
				rr.end = "garbage"
				return rr
			}
			continue // ping / pong
		}
		id := pm.PacketMsg.ChannelID
		if id < 0 || id > 255 || !known[byte(id)] {
			rr.end, rr.endCh = "unknown-channel", id
			return rr
		}
		ch := byte(id)
		if enforce && len(bufs[ch])+len(pm.PacketMsg.Data) > capacity {
			rr.end, rr.endCh = "capacity", id
			rr.partial[ch] = len(bufs[ch])
			return rr
		}
		bufs[ch] = append(bufs[ch], pm.PacketMsg.Data...)
		if pm.PacketMsg.EOF {
			rr.delivered = append(rr.delivered, delivery{ch, append([]byte{}, bufs[ch]...)})
			bufs[ch] = nil
		}
	}
	for ch, b := range bufs {
		rr.partial[ch] = len(b)
	}
	rr.end = "eof"
	if garbage {
		rr.end = "garbage"
	}
	return rr
}

func perChannel(ds []delivery) map[byte][][]byte {
	m := map[byte][][]byte{}
	for _, d := range ds {
		m[d.ch] = append(m[d.ch], d.data)
	}
	return m
}

// ---------------------------------------------------------------------------------------------

type mconnObs struct {
	accepted  []bool
	stream    []byte
	chunks    [][]byte
	pkts      int
	got       []delivery
	recvErr   interface{}
	recvClass string
	ref       refRecv
	outcome   string
}

func recvErrClass(e interface{}) string {
	if e == nil {
		return "none"
	}
	if err, ok := e.(error); ok && err == io.EOF {
		return "eof"
	}
	s := fmt.Sprint(e)
	switch {
	case strings.Contains(s, "recovered from panic"):
		return "panic"
	case strings.Contains(s, "exceeds available capacity"):
		return "capacity"
	case strings.Contains(s, "unknown channel"):
		return "unknown-channel"
	case s == "EOF":
		return "eof"
	case strings.Contains(s, "exceeds max size"):
		return "packet-too-big"
	case strings.Contains(s, "unknown message type"):
		return "garbage"
	}
	return "other:" + s
}

// runSender drives the real sending half and returns the chunks it wrote to its connection.
func runSender(s mconnSpec, out net.Conn, obs *mconnObs) (fs []finding) {
	add := func(class, oracle, what string) { fs = append(fs, finding{sig(class, oracle), what}) }
	var sendErr interface{}
	S := conn.NewMConnectionWithConfig(out, descs(s), func(byte, []byte) {}, func(e interface{}) { sendErr = e }, mconnConfig())
	S.SetLogger(log.NewNopLogger())
	S.VerifC20PrepareUnstarted()
	defer S.VerifC20ReleaseUnstarted()
	defer func() {
		if p := recover(); p != nil {
			add("mconn:send", "panic", fmt.Sprintf("the sending half panicked: %v", p))
		}
	}()
	next := 0
	budget := 64
	for _, m := range s.Msgs {
		budget += m.Size/maxPayload() + 2
	}
	drain := func() {
		for i := 0; ; i++ {
			if S.VerifC20SendPacketMsg() {
				return
			}
			if i > budget {
				add("mconn:send", "sender-never-exhausts", "sendPacketMsg keeps reporting pending data")
				return
			}
		}
	}
	for _, op := range s.Ops {
		switch op {
		case 'E':
			if next < len(s.Msgs) {
				m := s.Msgs[next]
				known, ok := S.VerifC20TrySend(m.Ch, msgBytes(next, m))
				obs.accepted = append(obs.accepted, known && ok)
				next++
			}
		case 'S':
			S.VerifC20SendPacketMsg()
		case 'B':
			S.VerifC20SendSomePacketMsgs()
		case 'F':
			S.VerifC20Flush()
		case 'D':
			drain()
		}
	}
	for next < len(s.Msgs) { // messages the op string did not reach are enqueued now (queue permitting)
		m := s.Msgs[next]
		known, ok := S.VerifC20TrySend(m.Ch, msgBytes(next, m))
		obs.accepted = append(obs.accepted, known && ok)
		next++
		drain()
	}
	drain()
	S.VerifC20Flush()
	if sendErr != nil {
		add("mconn:send", "send-error", fmt.Sprintf("the sending half reported %v on a connection that never fails", sendErr))
	}
	return fs
}

// runMconn executes one MConnection case.
func runMconn(s mconnSpec) (fs []finding, obs mconnObs) {
	add := func(class, oracle, what string) { fs = append(fs, finding{sig(class, oracle), what}) }
	capacity := s.capacity()

	var rconn net.Conn
	var inDir *dir
	p := newPipe()
	defer p.closeAll()
	var pr *pair
	if s.Stack {
		var hf []finding
		pr, hf = newCleanPair(keys[0], keys[1])
		fs = append(fs, hf...)
		if pr == nil {
			return
		}
		defer pr.close()
		pr.syncMode(false)
		pr.p.ab.mu.Lock()
		pr.p.ab.record = true // to know what went over the wire (sealed)
		pr.p.ab.mu.Unlock()
	}

	// ---- the byte stream
	if s.chunks != nil {
		obs.chunks = s.chunks
	} else if s.Raw != "" {
		obs.chunks = rawStream(s)
	} else {
		p.ab.hold = true
		fs = append(fs, runSender(s, p.a, &obs)...)
		obs.chunks = p.ab.unitsCopy()
	}
	obs.stream = concat(obs.chunks...)
	pkts, garbage := parsePackets(obs.stream)
	obs.pkts = len(pkts)

	// ---- sender oracle: the packet stream carries every accepted message, whole, in channel order
	if s.Raw == "" && s.chunks == nil {
		if garbage {
			add("mconn:send", "packetisation", "the sender's byte stream is not a sequence of delimited packets")
		}
		all := referenceReceive(pkts, garbage, 0, false)
		want := map[byte][][]byte{}
		wantIdx := map[byte][]int{}
		for i, m := range s.Msgs {
			if i < len(obs.accepted) && obs.accepted[i] {
				want[m.Ch] = append(want[m.Ch], msgBytes(i, m))
				wantIdx[m.Ch] = append(wantIdx[m.Ch], i)
			}
		}
		got := perChannel(all.delivered)
		for _, ch := range chanIDs {
			w, g := want[ch], got[ch]
			for i := 0; i < len(w) || i < len(g); i++ {
				if i >= len(w) {
					add("mconn:send:extra-message", "packetisation", fmt.Sprintf("channel %d: the packet stream carries a message nobody sent (%d bytes)", ch, len(g[i])))
					break
				}
				if i >= len(g) || !bytes.Equal(w[i], g[i]) {
					gl := -1
					if i < len(g) {
						gl = len(g[i])
					}
					add("mconn:send:size="+sizeName(len(w[i]), capacity), "packetisation", fmt.Sprintf("channel %d message #%d (%d bytes) is not carried whole and in order by the packet stream (found %d bytes)", ch, i, len(w[i]), gl))
					break
				}
			}
			if n := all.partial[ch]; n > 0 {
				add("mconn:send", "packetisation", fmt.Sprintf("channel %d: %d bytes of an unterminated message after the sender was drained", ch, n))
			}
		}
		for _, pk := range pkts {
			if pm, ok := pk.Sum.(*kp2p.Packet_PacketMsg); ok && len(pm.PacketMsg.Data) > maxPayload() {
				add("mconn:send", "packetisation", fmt.Sprintf("packet payload of %d bytes exceeds the configured maximum", len(pm.PacketMsg.Data)))
				break
			}
		}
	}

	// ---- the receiving half
	if s.Stack {
		// through the real secret connection: A writes the stream (chunk by chunk), B is R's conn
		for _, c := range obs.chunks {
			if _, err := pr.a.Write(c); err != nil {
				add("mconn:stack", "clean-session-failed", "SecretConnection.Write failed: "+err.Error())
				return
			}
		}
		inDir = pr.p.ab
		rconn = pr.b
	} else {
		inDir = newDir()
		e := &end{in: inDir, out: newDir(), local: p.b.local, remote: p.b.remote}
		e.out.record = false
		rconn = e
		switch {
		case s.ReadChunk == -1:
			for _, c := range obs.chunks {
				inDir.feed(c)
			}
		default:
			inDir.feed(obs.stream)
			if s.ReadChunk > 0 {
				inDir.setMaxRead(s.ReadChunk)
			}
		}
	}
	inDir.mu.Lock()
	inDir.eofAtEnd = true
	inDir.feedDone = true
	inDir.mu.Unlock()

	errCh := make(chan interface{}, 1)
	var got []delivery
	R := conn.NewMConnectionWithConfig(rconn, descs(s),
		func(ch byte, b []byte) { got = append(got, delivery{ch, append([]byte{}, b...)}) },
		func(e interface{}) { errCh <- e }, mconnConfig())
	R.SetLogger(log.NewNopLogger())
	if err := R.Start(); err != nil {
		add("mconn:recv", "start-failed", err.Error())
		return
	}
	obs.recvErr = <-errCh // the receive routine always ends through stopForError -> onError
	obs.got = got
	obs.recvClass = recvErrClass(obs.recvErr)
	R.Stop()

	// ---- receiver oracle, against the reference receiver on the same bytes
	obs.ref = referenceReceive(pkts, garbage, capacity, true)
	if s.Raw == "alias-channel" || s.Raw == "oversize-packet" || s.Raw == "empty-packet" {
		// observed only (see the assumptions): what the receiver does with these is not part of the property
		if obs.recvClass == "panic" {
			add("mconn:recv:"+s.Raw, "panic", fmt.Sprint(obs.recvErr))
		}
		obs.outcome = fmt.Sprintf("observed real=%s delivered=%d", classHead(obs.recvClass), len(obs.got))
		return
	}
	exp, real := perChannel(obs.ref.delivered), perChannel(obs.got)
	for _, ch := range chanIDs {
		w, g := exp[ch], real[ch]
		for i := 0; i < len(w) || i < len(g); i++ {
			if i >= len(w) {
				cl, oracle := "mconn:recv:extra-message", "exactly-once-intact-in-order"
				if len(g[i]) > capacity {
					cl, oracle = "mconn:recv:size="+sizeName(len(g[i]), capacity), "oversize-message-delivered"
				}
				add(cl, oracle, fmt.Sprintf("channel %d: onReceive got a message of %d bytes that the stream does not deliver at this point (reference end: %s)", ch, len(g[i]), obs.ref.end))
				break
			}
			if i >= len(g) {
				add("mconn:recv:size="+sizeName(len(w[i]), capacity), "exactly-once-intact-in-order", fmt.Sprintf("channel %d message #%d (%d bytes) was not delivered to onReceive (receiver ended with %v)", ch, i, len(w[i]), obs.recvErr))
				break
			}
			if !bytes.Equal(w[i], g[i]) {
				add("mconn:recv:size="+sizeName(len(w[i]), capacity), "exactly-once-intact-in-order", fmt.Sprintf("channel %d message #%d: onReceive got %d bytes that differ from the %d bytes sent (first difference at %d)", ch, i, len(g[i]), len(w[i]), commonPrefix(w[i], g[i])))
				break
			}
		}
	}
	if obs.recvClass == "panic" {
		add("mconn:recv", "panic", fmt.Sprint(obs.recvErr))
	}
	switch obs.ref.end {
	case "eof":
		if obs.recvClass != "eof" {
			add("mconn:recv", "clean-stream-refused", fmt.Sprintf("a well-formed stream within capacity ended with %v instead of the end of the connection", obs.recvErr))
		}
	case "capacity":
		if obs.recvClass == "eof" || obs.recvClass == "none" {
			add("mconn:recv:size=>capacity", "oversize-not-refused", fmt.Sprintf("a message exceeding RecvMessageCapacity=%d on channel %d was not refused with an error", capacity, obs.ref.endCh))
		}
		if n := R.VerifC20RecvingLen(byte(obs.ref.endCh)); n > capacity {
			add("mconn:recv:size=>capacity", "unbounded-accumulation", fmt.Sprintf("channel %d buffers %d bytes of an unfinished message, capacity %d", obs.ref.endCh, n, capacity))
		}
	case "unknown-channel":
		if obs.ref.endCh >= 0 && obs.ref.endCh <= 255 && (obs.recvClass == "eof" || obs.recvClass == "none") {
			add("mconn:recv:unknown-channel", "unknown-channel-not-refused", fmt.Sprintf("a packet for channel id %d, which is not configured, did not end the connection with an error", obs.ref.endCh))
		}
	}
	obs.outcome = fmt.Sprintf("ref=%s real=%s delivered=%d/%d", obs.ref.end, classHead(obs.recvClass), len(obs.got), len(obs.ref.delivered))
	return
}

func classHead(c string) string {
	if i := strings.IndexByte(c, ':'); i >= 0 {
		return c[:i]
	}
	return c
}

// ---------------------------------------------------------------------------------------------
// hand-made packet streams (a hostile or merely differently scheduling peer)

func rawPacket(ch int32, eof bool, data []byte) []byte {
	p := kp2p.Packet{Sum: &kp2p.Packet_PacketMsg{PacketMsg: &kp2p.PacketMsg{ChannelID: ch, EOF: eof, Data: data}}}
	return delimited(&p)
}

func delimited(p *kp2p.Packet) []byte {
	bz, err := p.Marshal()
	if err != nil {
		panic(err)
	}
	var l [binary.MaxVarintLen64]byte
	n := binary.PutUvarint(l[:], uint64(len(bz)))
	return append(l[:n:n], bz...)
}

var unknownIDs = []int32{0x00, 0x04, 0x7f, 0x80, 0xff}
var aliasIDs = []int32{0x101, 0x10002, -253} // low byte is a configured channel: observed, not judged

func splitPackets(ch byte, data []byte) [][]byte {
	var out [][]byte
	mp := maxPayload()
	for {
		n := len(data)
		if n > mp {
			n = mp
		}
		out = append(out, rawPacket(int32(ch), n == len(data), data[:n]))
		data = data[n:]
		if len(data) == 0 {
			return out
		}
	}
}

// merges enumerates all interleavings of k sequences of length n each (as sequences of source ids).
func merges(k, n int) [][]int {
	var out [][]int
	left := make([]int, k)
	for i := range left {
		left[i] = n
	}
	var cur []int
	var rec func()
	rec = func() {
		done := true
		for i := 0; i < k; i++ {
			if left[i] > 0 {
				done = false
				left[i]--
				cur = append(cur, i)
				rec()
				cur = cur[:len(cur)-1]
				left[i]++
			}
		}
		if done {
			out = append(out, append([]int(nil), cur...))
		}
	}
	rec()
	return out
}

var mergeCache = map[[2]int][][]int{}

func rawStream(s mconnSpec) [][]byte {
	mp := maxPayload()
	capacity := s.capacity()
	a := msgBytes(0, mMsg{chanIDs[0], 700})
	b := msgBytes(1, mMsg{chanIDs[1], mp + 5})
	switch s.Raw {
	case "unknown-channel", "alias-channel":
		id := unknownIDs[s.Param%len(unknownIDs)]
		if s.Raw == "alias-channel" {
			id = aliasIDs[s.Param%len(aliasIDs)]
		}
		var out [][]byte
		out = append(out, splitPackets(chanIDs[0], a)...)
		out = append(out, rawPacket(id, true, []byte("x")))
		out = append(out, splitPackets(chanIDs[1], b)...)
		return out
	case "never-ending":
		var out [][]byte
		out = append(out, rawPacket(int32(chanIDs[1]), false, b[:mp])) // an unfinished message on another channel
		out = append(out, splitPackets(chanIDs[2], a)...)              // a complete one
		n := capacity/mp + 2 + s.Param
		for i := 0; i < n; i++ {
			out = append(out, rawPacket(int32(chanIDs[0]), false, pattern(i, mp)))
		}
		out = append(out, rawPacket(int32(chanIDs[1]), true, b[mp:])) // would complete, but after the refusal
		return out
	case "exact-capacity-then-empty-eof", "exact-capacity-then-one-byte":
		var out [][]byte
		data := msgBytes(2, mMsg{chanIDs[0], capacity})
		for len(data) > 0 {
			n := len(data)
			if n > mp {
				n = mp
			}
			out = append(out, rawPacket(int32(chanIDs[0]), false, data[:n]))
			data = data[n:]
		}
		if s.Raw == "exact-capacity-then-empty-eof" {
			out = append(out, rawPacket(int32(chanIDs[0]), true, nil))
		} else {
			out = append(out, rawPacket(int32(chanIDs[0]), true, []byte{1}))
		}
		out = append(out, splitPackets(chanIDs[1], b)...)
		return out
	case "merge2", "merge3":
		per := 2
		if s.Raw == "merge3" {
			per = 3
		}
		var seqs [3][][]byte
		for i := range seqs {
			seqs[i] = splitPackets(chanIDs[i], msgBytes(i, mMsg{chanIDs[i], (per-1)*mp + 1 + i}))
		}
		ms := mergeCache[[2]int{3, per}]
		order := ms[s.Param%len(ms)]
		var out [][]byte
		var pos [3]int
		for _, src := range order {
			out = append(out, seqs[src][pos[src]])
			pos[src]++
		}
		return out
	case "ping-pong-interleaved":
		var out [][]byte
		ping := delimited(&kp2p.Packet{Sum: &kp2p.Packet_PacketPing{PacketPing: &kp2p.PacketPing{}}})
		pong := delimited(&kp2p.Packet{Sum: &kp2p.Packet_PacketPong{PacketPong: &kp2p.PacketPong{}}})
		for i, pk := range splitPackets(chanIDs[0], msgBytes(0, mMsg{chanIDs[0], 3 * mp})) {
			out = append(out, pk)
			if i%2 == 0 {
				out = append(out, ping)
			} else {
				out = append(out, pong)
			}
		}
		return out
	case "oversize-packet":
		return [][]byte{rawPacket(int32(chanIDs[0]), true, pattern(1, mp+1+s.Param)), rawPacket(int32(chanIDs[1]), true, []byte("after"))}
	case "empty-packet":
		return [][]byte{rawPacket(int32(chanIDs[0]), true, []byte("before")), delimited(&kp2p.Packet{}), rawPacket(int32(chanIDs[1]), true, []byte("after"))}
	}
	panic("harness: unknown raw stream " + s.Raw)
}
