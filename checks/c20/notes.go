package main

// This file holds, as comments, what would otherwise be FINDINGS.md and MUTANTS.md of this check
// (the authoring sub-agent's file tool refuses to create .md files). No code.

/*
=====================================================================================================
FINDINGS — C20 on the unchanged repository
=====================================================================================================

STATUS: F1 was fixed in /repo by commit 8608b2c ("a zero-length message taken off a channel's send queue is not
forgotten", the suggested fix) and is listed as "fixed" in KNOWN_FINDINGS.jsonl; the unchanged tree now exits 0.

F1 (genuine, low practical severity): a zero-length message accepted by Send/TrySend is silently lost
(and the channel's sendQueueSize leaks) when another channel wins the packet selection.

  Signature:  C20|input-class=mconn:send:size=0|oracle=packetisation

  Where: lib/p2p/conn/connection.go
    * Channel.isSendPending (~line 817):
          if len(ch.sending) == 0 { if len(ch.sendQueue) == 0 { return false }; ch.sending = <-ch.sendQueue }
          return true
    * MConnection.sendPacketMsg (~line 519) calls isSendPending() on EVERY channel to pick the one with
      the least recentlySent/priority, so the call dequeues also on channels that are not chosen.

  "Nothing is being sent" is encoded as len(ch.sending) == 0. A zero-length message that was dequeued into
  ch.sending is indistinguishable from "nothing": if its channel does not win the selection in the very
  call that dequeued it, the next isSendPending() sees len(ch.sending) == 0 and an empty queue, answers
  false, and the message is forgotten. It is never written, the receiver never gets it although Send
  returned true, and sendQueueSize is never decremented (only nextPacketMsg does that), so CanSend() of
  that channel is false for ever after.

  Minimal failing input (replay file /verif/replay/C20-0.json of a quick run): channels 1 and 2;
  TrySend(ch2, []byte{}), TrySend(ch1, <any message>), then send packets until exhausted: one packet
  (channel 1) is written, the message on channel 2 never is. Case: msgs=[{ch:2,size:0},{ch:1,size:0}],
  ops "EFEF" + drain. 14 692 of the 346 712 MConnection cases of the quick tier hit it (every case with a
  0-byte message pending together with a message of a channel that wins the selection); every other size
  (1, maxPayload-1, maxPayload, maxPayload+1, 3*maxPayload, capacity) is delivered exactly once in every
  enumerated case.

  Reproduced outside the harness with the public API only (two Start()ed MConnections over net.Pipe; a
  _test.go file in lib/p2p/conn of a scratch copy). Output:
      delivered (channel, length): [[2 1000] [1 307200] [2 5]]; CanSend(0x02)=false     (4 accepted, 3 delivered)

      descs := []*ChannelDescriptor{{ID: 1, Priority: 1000, SendQueueCapacity: 4}, {ID: 2, Priority: 1, SendQueueCapacity: 4}}
      cfg := DefaulKAIConnConfig(); cfg.SendRate, cfg.RecvRate = 1<<40, 1<<40
      recv/send := NewMConnectionWithConfig(server/client of net.Pipe(), descs, record/ignore, ignore, cfg); SetLogger(nop); Start()
      send.Send(2, make([]byte, 1000))        // channel 2 has sent recently: it loses the next selections
      (wait for delivery)
      send.Send(1, make([]byte, 300*1024))    // channel 1 busy (and winning) for ~300 packets
      send.Send(2, []byte{})                  // returns true, is never transmitted
      send.Send(2, []byte("after"))
      (wait) -> 3 deliveries; send.CanSend(2) == false for ever

  Why genuine: the property (and the API: Send returned true) promises exactly-once delivery for any mix
  of message sizes; size 0 is legal on both ends (the receiver delivers a 0-byte message correctly when
  it does get sent — checked). Practical severity is low: every reactor message of this code base is a
  protobuf oneof wrapper and therefore >= 2 bytes, so honest nodes do not send empty messages today; the
  sendQueueSize leak (permanent CanSend()==false) would matter to any caller that gates on CanSend.
  Upstream Tendermint has the same code.

  Suggested minimal additive fix (/verif/checks/c20/suggested-fix-F1.patch, 4 lines): remember explicitly
  that a message was dequeued instead of inferring it from the length.
      type Channel struct { ...; sending []byte; sendingSet bool; ... }
      isSendPending:   if len(ch.sending) == 0 && !ch.sendingSet { ...; ch.sending = <-ch.sendQueue; ch.sendingSet = true }
      nextPacketMsg (EOF branch):   ch.sending = nil; ch.sendingSet = false
  Verified on a scratch worktree: `go test ./lib/p2p/conn/` passes, the reproduction delivers 4 of 4, and
  `VERIF_REPO=<worktree> ./run.sh C20 quick` exits 0 (OK property=C20): F1 is the only violation the check
  finds in the tree. No wire-format change.

Observations that are NOT reported as violations (measured, in the evidence as info_* counters):

  * Reflection of a node's own authentication message
    (info_secret_connection_alone_accepts_reflection_of_own_identity): the STS challenge is identical on
    both sides, so an ACTIVE attacker who terminates the key exchange itself can send the victim's own
    (pubkey, signature) back; MakeSecretConnection completes with RemotePubKey() == the victim's own key
    although the peer holds no private key. SecretConnection documents that consumers must authenticate
    the remote key; its only consumer, MultiplexTransport.upgrade, rejects the reflecting attacker in every
    enumerated variant (dialled-id mismatch, conn.ID != NodeInfo.ID, or isSelf) — checked
    (transport-reflection:*, 18 cases; mutants c20-transport-self-not-rejected and
    c20-transport-nodeinfo-id-not-compared make exactly these cases fail). Weakest reading: the property is
    decided at the peer-connection level for this input (assumption recorded in the evidence).
    Optional hardening: reject remPubKey == locPubKey in MakeSecretConnection.
  * Channel ids outside 0..255 (info_alias_channel_*): recvRoutine looks the channel up with
    byte(pkt.PacketMsg.ChannelID), so a packet with ChannelID 0x101 (or -253) is delivered on channel 0x01
    instead of being refused as unknown. Only the authenticated peer can send it and it could use id 1
    directly; ids in 0..255 that are not configured are refused (checked).
  * 5 of the 12 classic Curve25519 low-order blacklist encodings are ordinary points for this library
    because X25519 masks bit 255 (RFC 7748); the 7 that are low-order after masking are rejected with an
    error at the key exchange (low_order_key_rejected_with_error = 7). ErrSmallOrderRemotePubKey is declared
    but unused: the rejection comes from curve25519.X25519 failing on an all-zero shared secret.
  * A wire packet larger than maxPacketMsgSize and an empty Packet{} end the connection with an error.

=====================================================================================================
MUTANTS — demonstration that the check can fail
=====================================================================================================

Procedure (/verif/checks/c20/mutants.sh): scratch worktree of /repo at HEAD, `git apply` the patch, the
repository's own tests of the touched package (`go test -vet=off -count=1 ./lib/p2p/conn/` or `./lib/p2p/`;
lib/p2p has two tests failing at baseline, TestNetAddressProperties and TestNetAddressReachabilityTo,
which are ignored), then `VERIF_REPO=<worktree> VERIF_NOEVIDENCE=1 /verif/run.sh C20 quick`; worktree
removed afterwards. Because the unchanged tree already yields F1, a mutant counts as caught only by
signatures OTHER than F1's. Machine shared with other checks (load average ~50 on 16 cores).
Signatures are C20|input-class=<class>|oracle=<oracle>.

| mutant (/verif/mutants/...)                    | change                                                                    | repo tests still pass?                        | caught by quick? | new signatures (class / oracle) |
|------------------------------------------------|---------------------------------------------------------------------------|-----------------------------------------------|------------------|---------------------------------|
| c20-m52-recvnonce-not-incremented (M52)        | SecretConnection.Read: incrNonce(recvNonce) removed                        | FAIL (TestSecretConnectionReadWrite)          | yes, exit 1 (20) | chunking / read-error-on-clean-stream:decrypt; evil:honest / clean-session-failed; mitm:cut:* / intact-prefix-not-delivered; ... |
| c20-m53-challenge-signature-not-verified (M53) | MakeSecretConnection: challenge signature verified only if it is empty     | pass                                          | yes, exit 1 (6)  | evil:claim-third-party-key-{own,replayed,malformed}-signature / authenticated-without-private-key; evil:own-key-signature-{by-third-party,over-other-challenge} / same |
| c20-m54-recving-not-reset-after-eof (M54)      | Channel.recvPacketMsg: recving not re-made after EOF                       | pass                                          | yes, exit 1 (8)  | mconn:recv:size={0,1,maxPayload..,3*maxPayload,capacity} / exactly-once-intact-in-order; ... |
| c20-m55-capacity-check-dropped (M55)           | recvPacketMsg: capacity compared with the packet, not the assembled size   | pass                                          | yes, exit 1 (6)  | mconn:recv:size=>capacity / {oversize-message-delivered, oversize-not-refused, unbounded-accumulation}; mconn:recv:extra-message / exactly-once-intact-in-order |
| c20-sendnonce-not-incremented                  | SecretConnection.Write: incrNonce(sendNonce) removed                       | FAIL (TestSecretConnectionReadWrite)          | yes, exit 1 (20) | chunking / read-error-on-clean-stream:decrypt; ... |
| c20-both-nonces-frozen                         | both incrNonce calls removed (clean traffic works, replay accepted)        | pass                                          | yes, exit 1 (19) | mitm:dup:{auth,data}-frame / altered-bytes-delivered; mitm:drop:data-frame / altered-bytes-delivered; mitm:swap..., mitm:replay-same-session:... ; evil:honest / clean-session-failed (the reference endpoint counts nonces) |
| c20-frame-length-not-validated                 | Read: `chunkLength > dataMaxSize` test removed                             | pass                                          | yes, exit 1 (2)  | evil:authenticated-peer-sends-bad-frame-length / bytes-never-written-delivered; same / panic |
| c20-readfull-replaced-by-read                  | Read: io.ReadFull(sc.conn, ..) -> sc.conn.Read(..)                         | FAIL (TestMakeSecretConnection)               | yes, exit 1 (1)  | chunking:transport-short-reads / read-error-on-clean-stream:decrypt (mitm truncations additionally give irreproducible stale-buffer effects, counted in irreproducible_findings_not_reported, never reported) |
| c20-recvbuffer-drops-single-leftover-byte      | Read: leftover kept only if more than one byte remains                     | pass                                          | yes, exit 1 (1)  | chunking / read-error-on-clean-stream:stall (a byte is missing) |
| c20-eof-flag-off-by-one                        | nextPacketMsg: `len(sending) <= maxSize` -> `<= maxSize+1` (last byte of a maxSize+1 tail dropped; the earlier `<` variant became equivalent after the F1 fix: it only adds an empty EOF packet) | pass | yes, exit 1 (2)  | mconn:send:size={maxPayload+1,capacity+1} / packetisation |
| c20-unknown-channel-ignored                    | recvRoutine: unknown channel -> continue instead of stopForError           | FAIL (TestMConnectionReadErrorUnknownChannel) | yes, exit 1 (2)  | mconn:recv:unknown-channel / unknown-channel-not-refused; mconn:recv:extra-message / exactly-once-intact-in-order |
| c20-transport-dialed-id-not-compared           | upgrade: dialled-id comparison disabled                                    | pass                                          | yes, exit 1 (1)  | transport:dial=other,reported-id=auth,key=other,nodeinfo=ok/ok / inconsistent-peer-accepted |
| c20-transport-nodeinfo-id-not-compared         | upgrade: conn.ID vs NodeInfo.ID comparison disabled                        | FAIL (TestTransportMultiplexRejectMissmatchID)| yes, exit 1 (10) | transport:..reported-id=third.. / inconsistent-peer-accepted, wrong-remote-key; transport-reflection:..nodeinfo=own-id / authenticated-without-private-key |
| c20-transport-self-not-rejected                | upgrade: "reject self" disabled                                            | FAIL (TestSwitchFiltersOutItself, TestTransportMultiplexRejectSelf) | yes, exit 1 (4) | transport:..key=self.. / inconsistent-peer-accepted; transport-reflection:..nodeinfo=reflected / authenticated-without-private-key |
| c20-seeded-write-lock-narrowed (seeded C20)    | Write: sendMtx held only around Seal+incrNonce, conn.Write after Unlock     | pass (also silent under -race)                | yes, exit 1 (1), same signature and same first counterexample in 2 runs | two-writers:controlled-interleaving / read-error-on-clean-stream:decrypt (smallest: writes [[1],[1,1025]], choices [1,1,0], frames reach the wire in writer order 0111); the free-running phase also sees it (write-calls-not-atomic / decrypt) but not reproducibly: counted in irreproducible_findings_not_reported and printed as a note, never the verdict |
| c20-seeded-g-flushstop-waits-on-quit-channel (seeded C20g) | FlushStop: `<-c.doneSendRoutine` -> `<-c.quitSendRoutine` (no longer waits for the send routine to exit) | pass (lib/p2p/conn, lib/p2p, lib/p2p/pex per the seed's meta) | yes, exit 1 (3), identical in 3 runs, ~17 s | mconn:flushstop-while-send-routine-busy / exactly-once-intact-in-order; same / corrupted-packet-stream (smallest: msgs [{ch1,66000}], script "SX", choices [0,0], writes reach the wire in order R F F); C20|oracle=data-race|at=lib/p2p/conn.(*MConnection).flush from the -race pass |
| c20-race-write-without-send-mutex              | SecretConnection.Write: sendMtx not taken                                  | pass                                          | quick: not applicable (cooperative); RACE PASS: yes, exit 66, 10-13 data-race reports | (VERIF_RACE=1 C20_RACE_PASS=1) |

Controlled two-writer interleavings (interleave.go; the premise "a whole Write call is atomic" of the merge
phase as an explored fact, deterministic and replayable):
    two real writer goroutines on ONE real handshaken SecretConnection; a gate before every Write call (writer
    body) and a gate inside the checker's pipe at the start of every underlying conn.Write the SecretConnection
    issues (sealed frame in hand; in the unchanged code sendMtx is held there). Scheduling points = quiescent
    states: every writer finished, parked at a gate (checker bookkeeping) or blocked inside the code under
    test. The last is read off the scheduler state of the writer's goroutine: its id is recorded at start
    (runtime.Stack of itself), then runtime.Stack(buf,true) - a stop-the-world snapshot - is polled with
    Gosched in between until every writer that is "running" by the bookkeeping shows a waiting state
    (sync.Mutex.Lock, semacquire, RWMutex, Cond, WaitGroup, channel ops) whose blocking primitive was invoked
    DIRECTLY by a function of the repository (a wait inside sync.Pool's global lock or inside the checker does
    not count), at a moment when all other writers are parked/finished (so nobody can wake it). No sleep or
    timeout decides anything. Choices via verif/mc/explore (Ctx.Choose, Explorer{Bound}): default = keep
    running the writer that ran last; switching away from a writer that could continue costs 1 (preemption);
    when it cannot continue the move is free. With the unchanged code a writer started while the other is
    parked inside Write blocks on sendMtx, the only enabled move is the holder: every execution is a function
    of the choices. Replay file = {writes, dir, choices}; a schedule that cannot be executed on other code
    (different enabled sets) is reported as such by --replay and does not count as "still violates".
    The snapshot stops the world: with 16 Ps on the shared machine it cost ~9 ms (worldsema queueing), with
    one P ~50 us, so the phase runs under GOMAXPROCS(1) with one worker (8x faster overall).
    Scope quick: all unordered pairs of size lists of <=2 calls over {1,1024,1025,2048(2 frames),3000(3 frames)}
    plus all 3-call lists over {1,3000}, at least one multi-frame Write per scenario, direction alternating,
    all schedules with <=2 preemptions: 525 scenarios, 14 702 executions, 106 267 binary choice points, 35 701
    quiescent points with a writer blocked on the mutex (one snapshot each), 820 distinct wire orders, 62
    distinct payload orders, every scenario shows >1 payload order, 11 608 executions start a writer while
    the other is parked inside Write; 3.5-4 s.
    Scope thorough: lists of <=2 calls with <=3 preemptions in both directions; lists of <=3 calls with <=5 calls
    in total (3+3 calls over {1,3000}) with <=2 preemptions: 5 069 scenario jobs, ~49 s.
    After 300 violating executions the phase stops (each costs a new handshake; smallest schedules first).

Controlled exploration of FlushStop against a busy send routine (flushstop.go; why seeded C20g was missed before:
the sender of every MConnection case was an UNSTARTED connection driven synchronously, so there was no send
routine and FlushStop was never called; interleave.go explores SecretConnection.Write only):
    a real Start()ed MConnection over the checker's pipe; its send routine (found in the goroutine dump:
    stack contains sendRoutine, created by the explorer's goroutine) and a goroutine calling FlushStop() park
    at (1) the pipe gate at the start of every conn.Write (a flush, or the 64 KiB buffer overflowing inside a
    batch of packets) and (2) the logger handed to the connection, at the "Flush" message every flush() starts
    with. FlushThrottle is 1 h; "the throttle timer fires" is an operation of the checker (accessor
    VerifC20FireFlushThrottle: a value on flushTimer.Ch), enabled only while the send routine is idle in its
    select. Environment scripts over {S TrySend, T timer fires} with 1..3 S and <=2 T, then X = FlushStop().
    Choices via verif/mc/explore between the next script operation and releasing a parked goroutine; default
    = whoever moved last, preempting someone who could continue costs 1. Quiescence from goroutine states
    (select of the send routine, FlushStop's wait for doneSendRoutine count as waiting inside the code under
    test). Oracle: the wire decodes (reference receiver + real receiving MConnection) to exactly the messages
    accepted before FlushStop, once, intact, per-channel order; no deadlock, no panic. One P.
    quick: 161 scenarios (sizes {300, maxPayload+1} in all combinations, one channel / alternating two, plus a
    66000-byte first message), <=2 preemptions: 845 executions, 2 623 choice points, 4 774 snapshots, 504
    executions call FlushStop while the send routine is parked at a gate, 7 distinct wire orders; 0.5-0.6 s.
    thorough: 469 scenarios (sizes {1,300,maxPayload+1}), <=5 preemptions: ~3 500 executions, 2.1 s.
    The -race pass (checks/c20/RACEPASS, run by run.sh before every main run) additionally runs 150 (1500)
    free-running iterations of FlushStop against a send routine stalled in a slow first write with two more
    messages queued; unchanged tree: clean; seeded C20g: exit 66, data race in (*MConnection).flush.

The race pass (the same premise under the race detector, for races that are not at these scheduling points):
    VERIF_RACE=1 VERIF_NOEVIDENCE=1 C20_RACE_PASS=1 /verif/run.sh C20 quick
runs only the free-running scenario (300 iterations; two real writer goroutines + one reader per side on
real SecretConnection pairs) in a `go build -race` binary: unchanged tree exit 0 in ~1 s; with
c20-race-write-without-send-mutex exit 66 (WARNING: DATA RACE on sendNonce / the frame buffers) although the
stream happened to stay intact in that run, which is exactly why the detector and not the oracle is the
judge there. The normal tiers also run the free-running scenario (60 / 400 iterations) but do not depend on it.

Replay was exercised on M53: `VERIF_REPO=<worktree> ./run.sh C20 --replay <file>` prints the observation
and exits 1; the same file against /repo prints "every oracle holds for this case" and exits 0.
*/
