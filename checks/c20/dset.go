package main

// A compact concurrent set of 64-bit hashes: the measured count of distinct non-trivial cases
// (millions in the thorough tier; keeping the key strings would cost gigabytes).

import (
	"hash/fnv"
	"sync"
)

type dset struct {
	shards [64]struct {
		mu sync.Mutex
		m  map[uint64]struct{}
	}
}

func newDset() *dset {
	d := &dset{}
	for i := range d.shards {
		d.shards[i].m = map[uint64]struct{}{}
	}
	return d
}

func (d *dset) add(key string) {
	h := fnv.New64a()
	h.Write([]byte(key))
	v := h.Sum64()
	s := &d.shards[v>>58]
	s.mu.Lock()
	s.m[v] = struct{}{}
	s.mu.Unlock()
}

func (d *dset) count() int64 {
	var n int64
	for i := range d.shards {
		d.shards[i].mu.Lock()
		n += int64(len(d.shards[i].m))
		d.shards[i].mu.Unlock()
	}
	return n
}

var nontrivial = newDset()
