package main

// Controlled two-writer interleavings on one real SecretConnection: the premise of the merge phase
// ("a whole Write call is the atomic unit") explored as a fact instead of sampled.
//
// Two writer goroutines issue Write calls on the SAME SecretConnection. They can only move when the
// explorer lets them: there is a gate before every Write call (in the writer body) and a gate inside
// the pipe, at the start of every underlying conn.Write the SecretConnection issues, i.e. with a sealed
// frame in hand and (in the unchanged code) sendMtx held. Scheduling points are the quiescent states:
// every writer is finished, parked at a gate (the checker's own bookkeeping), or blocked inside the code
// under test. The last is read off the goroutine's scheduler state (runtime.Stack(all) is a
// stop-the-world snapshot): a writer that is "running" by the bookkeeping counts as blocked only when
// the snapshot shows it waiting (sync.Mutex.Lock, semacquire, chan receive, ...) with a frame of the code
// under test, not of the checker, as the caller of the blocking primitive, at a moment when every other
// writer is parked or finished - then nobody can wake it until the explorer releases someone. No
// sleep or timeout decides anything; polling only yields (Gosched) until such a snapshot is seen.
//
// Choices go through verif/mc/explore: the default is to keep running the writer that ran last; moving
// to the other writer although the last one could continue costs 1 (a preemption); when the last one
// cannot continue (finished / blocked) the move is free. The same choices give the same execution.

import (
	"bytes"
	"fmt"
	"runtime"
	"strconv"
	"strings"
	"sync"
	"time"

	"verif/mc/explore"
)

var ilvSizes = []int{1, 1024, 1025, 2048, 3000}

type ilvSpec struct {
	W       [2][]int `json:"writes"` // Write sizes of writer 0 and writer 1
	Dir     int      `json:"dir"`    // which side of the pair writes
	Bound   int      `json:"preemption_bound"`
	Choices []int    `json:"choices,omitempty"` // the schedule (replay); empty: explore
}

// ilvPayload: first byte names the writer (so that a 1-byte payload is attributable), then a pattern
// that depends on writer and call number.
func ilvPayload(w, k, n int) []byte {
	key := [3]int{w, k, n}
	if v, ok := ilvPayloads.Load(key); ok {
		return v.([]byte)
	}
	b := pattern(w*131+k*17+3, n)
	b[0] = byte(0xA0 + w)
	ilvPayloads.Store(key, b)
	return b
}

var ilvPayloads sync.Map // read-only once made

const (
	ilvNew = iota
	ilvAtCall
	ilvInWrite
	ilvRunning
	ilvDone
)

type ilvWriter struct {
	goid   uint64
	st     int
	call   int // index of the Write call it is at / in
	resume chan struct{}
	errs   []string
}

type ilvRun struct {
	mu     sync.Mutex
	w      [2]ilvWriter
	byGoid map[uint64]int
	abort  bool
	buf    []byte

	polls, blockedSeen, startedWhileOtherInside, preemptions int
	pollNs                                                   int64
	wire                                                     []byte // who put a frame on the wire, in order ('0'/'1')
}

func curGoid() uint64 {
	var b [64]byte
	n := runtime.Stack(b[:], false)
	f := bytes.Fields(b[:n])
	if len(f) < 2 {
		return 0
	}
	id, _ := strconv.ParseUint(string(f[1]), 10, 64)
	return id
}

// park: called by a writer goroutine; returns when the explorer releases it.
func (s *ilvRun) park(w, st int) {
	s.mu.Lock()
	if s.abort {
		s.mu.Unlock()
		return
	}
	s.w[w].st = st
	ch := s.w[w].resume
	s.mu.Unlock()
	<-ch
}

// pipeGate is installed in the pipe direction the writers write to.
func (s *ilvRun) pipeGate() {
	id := curGoid()
	s.mu.Lock()
	w, ok := s.byGoid[id]
	s.mu.Unlock()
	if !ok {
		return
	}
	s.park(w, ilvInWrite)
	s.mu.Lock()
	s.wire = append(s.wire, byte('0'+w))
	s.mu.Unlock()
}

type gstate struct {
	found  bool
	status string
	caller string // first frame that is not runtime / sync / internal: who called the blocking primitive
	prim   string // the sync.* function that caller invoked directly ("" for channel operations)
}

// snapshot reads the scheduler state of the given goroutines from one stop-the-world stack dump.
func (s *ilvRun) snapshot(ids []uint64) []gstate {
	return statesIn(s.dumpAll(), ids)
}

// dumpAll is one stop-the-world dump of all goroutines.
func (s *ilvRun) dumpAll() []byte {
	if s.buf == nil {
		s.buf = make([]byte, 256<<10)
	}
	var n int
	for {
		n = runtime.Stack(s.buf, true)
		if n < len(s.buf) {
			break
		}
		s.buf = make([]byte, 2*len(s.buf))
	}
	return s.buf[:n]
}

func statesIn(dump []byte, ids []uint64) []gstate {
	out := make([]gstate, len(ids))
	for i, id := range ids {
		needle := []byte("goroutine " + strconv.FormatUint(id, 10) + " [")
		pos := 0
		for {
			j := bytes.Index(dump[pos:], needle)
			if j < 0 {
				pos = -1
				break
			}
			pos += j
			if pos == 0 || dump[pos-1] == '\n' {
				break
			}
			pos += len(needle)
		}
		if pos < 0 {
			continue
		}
		blk := dump[pos:]
		if e := bytes.Index(blk, []byte("\n\n")); e >= 0 {
			blk = blk[:e]
		}
		lines := strings.Split(string(blk), "\n")
		hdr := lines[0][len(needle):]
		if e := strings.IndexAny(hdr, ",]"); e >= 0 {
			hdr = hdr[:e]
		}
		g := gstate{found: true, status: hdr}
		for _, ln := range lines[1:] {
			if ln == "" || ln[0] == '\t' {
				continue
			}
			if strings.HasPrefix(ln, "runtime.") || strings.HasPrefix(ln, "internal/") {
				continue
			}
			if strings.HasPrefix(ln, "sync.") {
				g.prim = ln // the sync function the caller invoked directly ends up here
				continue
			}
			g.caller = ln
			break
		}
		out[i] = g
	}
	return out
}

var waitingStates = map[string]bool{
	"sync.Mutex.Lock": true, "semacquire": true, "sync.RWMutex.Lock": true, "sync.RWMutex.RLock": true,
	"chan receive": true, "chan send": true, "select": true, "sync.Cond.Wait": true, "sync.WaitGroup.Wait": true,
}

// blockedInCodeUnderTest: waiting, and the blocking primitive (a mutex / cond / wait group method, or
// a channel operation) was invoked directly by a function of the repository. A wait inside e.g.
// sync.Pool (a global lock another execution may hold for a moment) or in the checker does not count.
func (g gstate) blockedInCodeUnderTest() bool {
	if !g.found || !waitingStates[g.status] || !strings.HasPrefix(g.caller, "github.com/kardiachain/go-kardia/") {
		return false
	}
	if g.prim == "" {
		return true
	}
	for _, p := range []string{"sync.(*Mutex).", "sync.(*RWMutex).", "sync.(*Cond).", "sync.(*WaitGroup)."} {
		if strings.HasPrefix(g.prim, p) {
			return true
		}
	}
	return false
}

// settle returns when the run is quiescent; blocked[w] tells which writers sit inside the code under test.
func (s *ilvRun) settle() (blocked [2]bool) {
	spins := 0
	next := 16
	for {
		var ids []uint64
		var who []int
		s.mu.Lock()
		for w := range s.w {
			if s.w[w].st == ilvRunning || s.w[w].st == ilvNew {
				ids = append(ids, s.w[w].goid)
				who = append(who, w)
			}
		}
		s.mu.Unlock()
		if len(ids) == 0 {
			return [2]bool{}
		}
		spins++
		if spins < next {
			runtime.Gosched()
			continue
		}
		// Everybody not listed was parked or finished BEFORE this snapshot and stays so until released.
		s.polls++
		all := true
		t0 := time.Now()
		st := s.snapshot(ids)
		s.pollNs += time.Since(t0).Nanoseconds()
		for _, g := range st {
			if !g.blockedInCodeUnderTest() {
				all = false
			}
		}
		if all {
			for _, w := range who {
				blocked[w] = true
			}
			s.blockedSeen++
			return blocked
		}
		if next < 4096 {
			next *= 2
		}
		spins = 0
		runtime.Gosched()
	}
}

type ilvObs struct {
	order       string // payload order as read by the receiver, e.g. "0.0 1.0 0.1"
	wire        string // which writer's frame reached the wire, in order
	points      int
	run         *ilvRun
	deadlock    bool
	pairHealthy bool
}

// runIlv executes one schedule (the choices come from c) of one scenario on a pair in synchronous mode.
func runIlv(pr *pair, sp ilvSpec, c *explore.Ctx) (fs []finding, obs ilvObs) {
	add := func(oracle, what string) {
		fs = append(fs, finding{sig("two-writers:controlled-interleaving", oracle), what})
	}
	wr, rd, out := pr.ends(sp.Dir)
	s := &ilvRun{byGoid: map[uint64]int{}}
	obs.run = s
	for w := range s.w {
		s.w[w].resume = make(chan struct{})
	}
	out.mu.Lock()
	out.gate = s.pipeGate
	out.mu.Unlock()
	defer func() {
		out.mu.Lock()
		out.gate = nil
		out.mu.Unlock()
	}()
	var wg sync.WaitGroup
	for w := 0; w < 2; w++ {
		wg.Add(1)
		ready := make(chan struct{})
		go func(w int) {
			defer wg.Done()
			id := curGoid()
			s.mu.Lock()
			s.w[w].goid = id
			s.byGoid[id] = w
			s.mu.Unlock()
			close(ready)
			defer func() {
				if p := recover(); p != nil {
					s.mu.Lock()
					s.w[w].errs = append(s.w[w].errs, fmt.Sprintf("panic: %v", p))
					s.mu.Unlock()
				}
				s.mu.Lock()
				s.w[w].st = ilvDone
				s.mu.Unlock()
			}()
			for k, n := range sp.W[w] {
				s.mu.Lock()
				s.w[w].call = k
				s.mu.Unlock()
				s.park(w, ilvAtCall)
				pl := ilvPayload(w, k, n)
				if m, err := wr.Write(pl); err != nil || m != len(pl) {
					s.mu.Lock()
					s.w[w].errs = append(s.w[w].errs, fmt.Sprintf("Write #%d (%d bytes) returned n=%d err=%v", k, len(pl), m, err))
					s.mu.Unlock()
				}
			}
		}(w)
		<-ready
	}
	s.settle() // both at their first call gate (or done, for an empty list)

	cur := -1
	for step := 0; ; step++ {
		blocked := [2]bool{}
		if step > 0 {
			blocked = s.settle()
		}
		var enabled []int
		alldone := true
		s.mu.Lock()
		for w := range s.w {
			if s.w[w].st != ilvDone {
				alldone = false
			}
			if s.w[w].st == ilvAtCall || s.w[w].st == ilvInWrite {
				enabled = append(enabled, w)
			}
		}
		lab := fmt.Sprintf("%d:%d.%d%v|%d.%d%v", cur, s.w[0].st, s.w[0].call, blocked[0], s.w[1].st, s.w[1].call, blocked[1])
		s.mu.Unlock()
		if alldone {
			break
		}
		if len(enabled) == 0 {
			obs.deadlock = true
			add("deadlock", fmt.Sprintf("no writer can move: %s (wire so far %s)", lab, s.wire))
			break
		}
		// default first: the writer that ran last, if it can continue
		alts := enabled
		costs := make([]int, len(alts))
		if len(alts) == 2 {
			if cur == 1 {
				alts = []int{1, 0}
			}
			if cur >= 0 {
				costs[1] = 1
			}
		}
		pick := alts[0]
		if len(alts) > 1 {
			pick = alts[c.Choose(costs, lab)]
			obs.points++
		}
		s.mu.Lock()
		if cur >= 0 && pick != cur && len(alts) == 2 {
			s.preemptions++
		}
		other := 1 - pick
		if s.w[pick].st == ilvAtCall && s.w[other].st == ilvInWrite {
			s.startedWhileOtherInside++
		}
		s.w[pick].st = ilvRunning
		ch := s.w[pick].resume
		s.mu.Unlock()
		cur = pick
		ch <- struct{}{}
	}
	if obs.deadlock {
		// let whoever is parked run to the end; writers stuck inside the code under test are abandoned
		s.mu.Lock()
		s.abort = true
		for w := range s.w {
			if s.w[w].st == ilvAtCall || s.w[w].st == ilvInWrite {
				close(s.w[w].resume)
			}
		}
		s.mu.Unlock()
		return
	}
	wg.Wait()
	obs.wire = string(s.wire)
	for w := range s.w {
		for _, e := range s.w[w].errs {
			if strings.HasPrefix(e, "panic") {
				add("panic", fmt.Sprintf("writer %d: %s", w, e))
			} else {
				add("write-failed", fmt.Sprintf("writer %d: %s", w, e))
			}
		}
	}
	// the reader reads everything there is
	got, end := readAll(rd, 1500)
	if isPanicErr(end) {
		add("panic", end.Error())
		return
	}
	if errClass(end) != "stall" {
		add("read-error-on-clean-stream:"+errClass(end), fmt.Sprintf("Read failed after %d bytes: %v (frames reached the wire in writer order %s)", len(got), end, obs.wire))
		return
	}
	// the bytes read must be a concatenation of whole intact payloads, each writer's in its own order
	next := [2]int{}
	off := 0
	var ord []string
	for off < len(got) {
		w := int(got[off]) - 0xA0
		if w < 0 || w > 1 || next[w] >= len(sp.W[w]) {
			add("write-calls-not-atomic", fmt.Sprintf("byte %d of the stream does not start a payload that is due (wire %s)", off, obs.wire))
			return
		}
		pl := ilvPayload(w, next[w], sp.W[w][next[w]])
		if off+len(pl) > len(got) || !bytes.Equal(got[off:off+len(pl)], pl) {
			add("write-calls-not-atomic", fmt.Sprintf("payload #%d of writer %d (%d bytes) at offset %d is not intact: another Write's bytes are mixed in (wire %s)", next[w], w, len(pl), off, obs.wire))
			return
		}
		ord = append(ord, fmt.Sprintf("%d.%d", w, next[w]))
		next[w]++
		off += len(pl)
	}
	if next[0] != len(sp.W[0]) || next[1] != len(sp.W[1]) {
		add("missing-bytes", fmt.Sprintf("%d+%d of %d+%d payloads delivered", next[0], next[1], len(sp.W[0]), len(sp.W[1])))
		return
	}
	obs.order = strings.Join(ord, " ")
	obs.pairHealthy = len(fs) == 0
	return
}

// ilvScenarios: unordered pairs of size lists of 1..k calls over sizes, at least one multi-frame size.
func ilvScenarios(k int, sizes []int) []ilvSpec {
	var lists [][]int
	var rec func(cur []int)
	rec = func(cur []int) {
		if len(cur) > 0 {
			lists = append(lists, append([]int(nil), cur...))
		}
		if len(cur) == k {
			return
		}
		for _, s := range sizes {
			rec(append(cur, s))
		}
	}
	rec(nil)
	multi := func(l []int) bool {
		for _, n := range l {
			if n > dataMax {
				return true
			}
		}
		return false
	}
	var out []ilvSpec
	for i, a := range lists {
		for _, b := range lists[i:] {
			if multi(a) || multi(b) {
				out = append(out, ilvSpec{W: [2][]int{a, b}})
			}
		}
	}
	return out
}

func ilvKey(sp ilvSpec) string { return fmt.Sprint(sp.W, sp.Dir) }
