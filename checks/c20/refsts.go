package main

// An independent endpoint of the station-to-station handshake, written from the protocol (X25519,
// merlin transcript, HKDF-SHA256, ChaCha20-Poly1305 frames with a little-endian 64-bit counter nonce)
// with public libraries only. It plays the ACTIVE attacker: it terminates the key exchange itself, so
// it knows the session keys, and then lies in the authentication message. It is driven by the checker
// step by step (no goroutine of its own); the real victim runs in a goroutine and reads only what the
// checker feeds, so a stalled victim is detected exactly (see sessions.go).
// Its honest variant must interoperate with the real code in both directions (checked on every run),
// which is what makes a rejection of the dishonest variants meaningful.

import (
	"bytes"
	"crypto/cipher"
	"crypto/ecdsa"
	crand "crypto/rand"
	"crypto/sha256"
	"encoding/binary"
	"errors"
	"fmt"
	"io"
	"net"
	"runtime/debug"

	gogotypes "github.com/gogo/protobuf/types"
	"github.com/gtank/merlin"
	"golang.org/x/crypto/chacha20poly1305"
	"golang.org/x/crypto/curve25519"
	"golang.org/x/crypto/hkdf"

	"github.com/kardiachain/go-kardia/lib/crypto"
	cryptoenc "github.com/kardiachain/go-kardia/lib/crypto/encoding"
	"github.com/kardiachain/go-kardia/lib/p2p/conn"
	"github.com/kardiachain/go-kardia/lib/protoio"
	kp2p "github.com/kardiachain/go-kardia/proto/kardiachain/p2p"
)

type refSTS struct {
	ephPriv, ephPub      [32]byte
	remEph               [32]byte
	sendAead, recvAead   cipher.AEAD
	sendNonce, recvNonce uint64
	challenge            [32]byte
	dhErr                error
}

func newRefKey() (priv, pub [32]byte) {
	if _, err := io.ReadFull(crand.Reader, priv[:]); err != nil {
		panic(err)
	}
	p, err := curve25519.X25519(priv[:], curve25519.Basepoint)
	if err != nil {
		panic(err)
	}
	copy(pub[:], p)
	return
}

// newRefSTS picks an ephemeral key that sorts below (lower=true) or above the peer's; nil when the
// peer's key is so close to the end of the range that 400 draws do not produce one (the caller then
// starts the session afresh: the peer draws a new key).
func newRefSTS(peerEph []byte, lower bool) *refSTS {
	e := &refSTS{}
	for i := 0; i < 400; i++ {
		e.ephPriv, e.ephPub = newRefKey()
		if (bytes.Compare(e.ephPub[:], peerEph) < 0) == lower {
			return e
		}
	}
	return nil
}

func ephMsg(pub []byte) []byte {
	bz, err := protoio.MarshalDelimited(&gogotypes.BytesValue{Value: pub})
	if err != nil {
		panic(err)
	}
	return bz
}

func parseEphMsg(unit []byte) ([]byte, error) {
	var bv gogotypes.BytesValue
	if err := protoio.UnmarshalDelimited(unit, &bv); err != nil {
		return nil, err
	}
	if len(bv.Value) != 32 {
		return nil, fmt.Errorf("ephemeral key of %d bytes", len(bv.Value))
	}
	return bv.Value, nil
}

func (e *refSTS) derive(remEph []byte) error {
	copy(e.remEph[:], remEph)
	dh, err := curve25519.X25519(e.ephPriv[:], e.remEph[:])
	if err != nil {
		e.dhErr = err
		return err
	}
	lo, hi := e.ephPub[:], e.remEph[:]
	if bytes.Compare(lo, hi) >= 0 {
		lo, hi = hi, lo
	}
	t := merlin.NewTranscript("TENDERMINT_SECRET_CONNECTION_TRANSCRIPT_HASH")
	t.AppendMessage([]byte("EPHEMERAL_LOWER_PUBLIC_KEY"), lo)
	t.AppendMessage([]byte("EPHEMERAL_UPPER_PUBLIC_KEY"), hi)
	t.AppendMessage([]byte("DH_SECRET"), dh)
	locIsLeast := bytes.Equal(e.ephPub[:], lo)
	kdf := hkdf.New(sha256.New, dh, nil, []byte("TENDERMINT_SECRET_CONNECTION_KEY_AND_CHALLENGE_GEN"))
	var res [96]byte
	if _, err := io.ReadFull(kdf, res[:]); err != nil {
		return err
	}
	recvKey, sendKey := res[0:32], res[32:64]
	if !locIsLeast {
		recvKey, sendKey = sendKey, recvKey
	}
	if e.sendAead, err = chacha20poly1305.New(sendKey); err != nil {
		return err
	}
	if e.recvAead, err = chacha20poly1305.New(recvKey); err != nil {
		return err
	}
	copy(e.challenge[:], t.ExtractBytes([]byte("SECRET_CONNECTION_MAC"), 32))
	return nil
}

func nonceBytes(n uint64) []byte {
	var b [12]byte
	binary.LittleEndian.PutUint64(b[4:], n)
	return b[:]
}

// sealFrame seals one frame with an arbitrary length field and payload area.
func (e *refSTS) sealFrame(lengthField uint32, payload []byte) []byte {
	frame := make([]byte, plainFrame)
	binary.LittleEndian.PutUint32(frame, lengthField)
	copy(frame[lenSize:], payload)
	out := e.sendAead.Seal(nil, nonceBytes(e.sendNonce), frame, nil)
	e.sendNonce++
	return out
}

// seal splits data into frames the way the protocol prescribes.
func (e *refSTS) seal(data []byte) []byte {
	var out []byte
	for len(data) > 0 {
		n := len(data)
		if n > dataMax {
			n = dataMax
		}
		out = append(out, e.sealFrame(uint32(n), data[:n])...)
		data = data[n:]
	}
	return out
}

func (e *refSTS) openFrame(sealed []byte) ([]byte, error) {
	if len(sealed) != frameSize {
		return nil, fmt.Errorf("sealed frame of %d bytes", len(sealed))
	}
	frame, err := e.recvAead.Open(nil, nonceBytes(e.recvNonce), sealed, nil)
	if err != nil {
		return nil, err
	}
	e.recvNonce++
	n := binary.LittleEndian.Uint32(frame)
	if n > dataMax {
		return nil, errors.New("length field exceeds frame payload")
	}
	return frame[lenSize : lenSize+int(n)], nil
}

func authMsg(pub ecdsa.PublicKey, sig []byte) []byte {
	pk, err := cryptoenc.PubKeyToProto(pub)
	if err != nil {
		panic(err)
	}
	bz, err := protoio.MarshalDelimited(&kp2p.AuthSigMessage{PubKey: pk, Sig: sig})
	if err != nil {
		panic(err)
	}
	return bz
}

// ---------------------------------------------------------------------------------------------

// victimResult is what the real party (a handshake or a transport upgrade) returned.
type victimResult struct {
	sc       *conn.SecretConnection
	err      error
	panicked string
	extra    interface{}
}

func (v victimResult) ok() bool { return v.err == nil && v.panicked == "" }

func (v victimResult) String() string {
	return hsResult{sc: v.sc, err: v.err, panicked: v.panicked}.String()
}

// evilSess: the real victim on end b in a goroutine; the attacker is the checker itself.
type evilSess struct {
	p    *pipe
	e    *refSTS
	done <-chan victimResult

	vEph  []byte
	vAuth kp2p.AuthSigMessage // the victim's own (decrypted) authentication message
	vPub  *ecdsa.PublicKey
}

func handshakeVictim(key *ecdsa.PrivateKey) func(c net.Conn) victimResult {
	return func(c net.Conn) (res victimResult) {
		res.sc, res.err = conn.MakeSecretConnection(c, key)
		if res.err == nil && res.sc == nil {
			res.err = errors.New("nil connection without error")
		}
		return
	}
}

// startEvil runs the key exchange with the victim up to the point where the attacker has the
// victim's authentication message and has not yet sent its own. eph != nil: send exactly these 32
// bytes as ephemeral key (no key agreement possible; returns after the victim reacted).
func startEvil(victim func(c net.Conn) victimResult, lower bool, eph []byte) (*evilSess, *victimResult) {
	s := &evilSess{p: newPipe()}
	s.p.ba.hold = true // what the victim writes is only recorded
	ch := make(chan victimResult, 1)
	s.done = ch
	go func() {
		var res victimResult
		defer func() {
			if p := recover(); p != nil {
				res.panicked = fmt.Sprintf("%v\n%s", p, debug.Stack())
			}
			s.p.ba.setWriterDone()
			ch <- res
		}()
		res = victim(s.p.b)
	}()
	fail := func() (*evilSess, *victimResult) {
		s.p.ab.setFeedDone(true)
		res := <-s.done
		return s, &res
	}
	// 1. the victim sends its ephemeral key unconditionally
	if !s.p.ba.waitUnits(1) {
		return fail()
	}
	v, err := parseEphMsg(firstUnit(s.p.ba))
	if err != nil {
		return fail()
	}
	s.vEph = v
	if eph != nil {
		s.p.ab.feed(ephMsg(eph))
		return fail()
	}
	if s.e = newRefSTS(v, lower); s.e == nil {
		// wanted key order not reachable against this key: let this victim run stall, take a new one
		fail()
		s.close()
		r.Add("evil_sessions_restarted_for_key_order", 1)
		return startEvil(victim, lower, eph)
	}
	s.p.ab.feed(ephMsg(s.e.ephPub[:]))
	// 2. having read ours, the victim sends its auth frame unconditionally
	if !s.p.ba.waitUnits(2) {
		return fail()
	}
	if err := s.e.derive(v); err != nil {
		return fail()
	}
	au := s.p.ba.unitsCopy()[1]
	plain, err := s.e.openFrame(au)
	if err != nil {
		r.Add("ref_endpoint_could_not_open_victims_auth_frame", 1)
		return fail()
	}
	if err := protoio.UnmarshalDelimited(plain, &s.vAuth); err != nil {
		r.Add("ref_endpoint_could_not_parse_victims_auth_message", 1)
		return fail()
	}
	if pk, err := cryptoenc.PubKeyFromProto(s.vAuth.PubKey); err == nil {
		s.vPub = pk
		if crypto.VerifySignature(crypto.PubkeyToAddress(*pk), s.e.challenge[:], s.vAuth.Sig) {
			r.Add("ref_endpoint_verified_victims_challenge_signature", 1)
		} else {
			r.Add("ref_endpoint_rejected_victims_challenge_signature", 1)
		}
	}
	return s, nil
}

// finish feeds the attacker's remaining bytes, declares the feed complete and waits for the victim.
func (s *evilSess) finish(bz []byte) victimResult {
	s.p.ab.feed(bz)
	s.p.ab.setFeedDone(true)
	return <-s.done
}

func (s *evilSess) close() { s.p.closeAll() }

// ---------------------------------------------------------------------------------------------

type evilSpec struct {
	Scenario string `json:"scenario"`
	Param    int    `json:"param"`
	Lower    bool   `json:"attacker_eph_lower"`
}

var sigShapes = []string{"empty", "64-zero", "65-zero", "65-ff", "66-bytes", "own-sig-v-flipped", "own-sig-truncated-64", "own-sig-v+27", "r-zero", "third-party-pubkey-bytes"}
var badLengths = []uint32{dataMax + 1, 2044, 2045, 4096, 0x7fffffff, 0x80000000, 0xfffffffc, 0xffffffff}

func evilSpecs() []evilSpec {
	var ss []evilSpec
	for _, lower := range []bool{true, false} {
		ss = append(ss,
			evilSpec{"honest", 0, lower},
			evilSpec{"claim-third-party-key-own-signature", 0, lower},
			evilSpec{"claim-third-party-key-replayed-signature", 0, lower},
			evilSpec{"own-key-signature-over-other-challenge", 0, lower},
			evilSpec{"own-key-signature-by-third-party", 0, lower},
			evilSpec{"reflect-victims-auth-message", 0, lower},
			evilSpec{"auth-message-sealed-with-receive-key", 0, lower},
		)
		for i := range sigShapes {
			ss = append(ss, evilSpec{"claim-third-party-key-malformed-signature", i, lower})
		}
		for i := range badLengths {
			ss = append(ss, evilSpec{"authenticated-peer-sends-bad-frame-length", i, lower})
		}
	}
	for i := range lowOrderPoints {
		ss = append(ss, evilSpec{"low-order-ephemeral-key", i, false})
	}
	return ss
}

// runEvil executes one attacker scenario against a real MakeSecretConnection. keyV: victim,
// keyE: attacker's own long-term key, keyW: a third party whose identity the attacker wants.
func runEvil(sp evilSpec) (fs []finding, outcome string) {
	class := "evil:" + sp.Scenario
	add := func(oracle, what string) { fs = append(fs, finding{sig(class, oracle), what}) }
	keyV, keyE, keyW := keys[0], keys[2], keys[1]

	judgeCommon := func(res victimResult) {
		if res.panicked != "" || isPanicErr(res.err) {
			add("panic", "victim panicked: "+res.String())
		}
	}
	mustReject := func(res victimResult, claimed *ecdsa.PublicKey) string {
		judgeCommon(res)
		if res.ok() {
			what := "the handshake completed"
			if claimed != nil && pubEq(res.sc.RemotePubKey(), *claimed) {
				what += " and RemotePubKey() reports a key whose private key the peer does not hold"
			}
			add("authenticated-without-private-key", what)
			return "accepted"
		}
		return "rejected"
	}

	if sp.Scenario == "low-order-ephemeral-key" {
		pt := lowOrderPoints[sp.Param]
		var probe [32]byte
		probe[0] = 9
		_, refErr := curve25519.X25519(probe[:], pt[:])
		if refErr == nil {
			// 5 of the 12 classic blacklist entries are low-order only for implementations that do not
			// mask bit 255 (RFC 7748 masks it); for this library they are ordinary points
			r.Add("info_blacklist_entries_that_are_ordinary_points_after_bit_255_masking", 1)
		}
		s, res := startEvil(handshakeVictim(keyV), false, pt[:])
		defer s.close()
		if res == nil {
			panic("harness: startEvil with a fixed key must return the victim's result")
		}
		out := mustReject(*res, nil)
		if errClass(res.err) == "stall" {
			out = "stalled"
			if refErr != nil {
				r.Add("info_low_order_key_not_rejected_at_key_exchange_victim_only_stalled", 1)
			}
		} else if !res.ok() {
			r.Add("low_order_key_rejected_with_error", 1)
		}
		return fs, out
	}

	s, early := startEvil(handshakeVictim(keyV), sp.Lower, nil)
	defer s.close()
	if early != nil {
		judgeCommon(*early)
		add("clean-session-failed", "the victim did not get through the key exchange with a protocol-conforming peer: "+early.String())
		return fs, "no-key-exchange"
	}
	e := s.e
	ownSig, err := crypto.Sign(e.challenge[:], keyE)
	if err != nil {
		panic(err)
	}

	switch sp.Scenario {
	case "honest", "authenticated-peer-sends-bad-frame-length":
		res := s.finish(e.seal(authMsg(keyE.PublicKey, ownSig)))
		judgeCommon(res)
		if !res.ok() {
			add("clean-session-failed", "handshake with an honest protocol-conforming peer failed: "+res.String())
			return fs, "rejected"
		}
		if !pubEq(res.sc.RemotePubKey(), keyE.PublicKey) {
			add("wrong-remote-key", "RemotePubKey() is not the key the peer authenticated with")
		}
		if s.vPub == nil || !pubEq(*s.vPub, keyV.PublicKey) {
			add("wrong-remote-key", "the victim's auth message does not carry the victim's key")
		}
		s.p.ab.setFeedDone(false)
		if sp.Scenario == "honest" {
			// data in both directions through the real connection
			d1 := pattern(7, 1324)
			s.p.ab.feed(e.seal(d1))
			s.p.ab.setFeedDone(true)
			got, end := readAll(res.sc, 600)
			if !bytes.Equal(got, d1) || errClass(end) != "stall" {
				add("clean-session-failed", fmt.Sprintf("reference endpoint -> real connection: %d of %d bytes, end %v", len(got), len(d1), end))
			}
			d2 := pattern(8, 1500)
			n0 := s.p.ba.numUnits()
			if _, err := res.sc.Write(d2); err != nil {
				add("clean-session-failed", "Write failed: "+err.Error())
			}
			var back []byte
			for _, u := range s.p.ba.unitsCopy()[n0:] {
				pl, err := e.openFrame(u)
				if err != nil {
					add("clean-session-failed", "a frame written by the real connection does not open with the session key: "+err.Error())
					break
				}
				back = append(back, pl...)
			}
			if !bytes.Equal(back, d2) {
				add("clean-session-failed", "real connection -> reference endpoint: bytes differ")
			}
			return fs, "accepted"
		}
		// a frame whose (authenticated) length field exceeds the payload area, then a good one
		s.p.ab.feed(e.sealFrame(badLengths[sp.Param], pattern(9, dataMax)))
		s.p.ab.feed(e.seal(pattern(10, 100)))
		s.p.ab.setFeedDone(true)
		var got []byte
		var end error
		func() {
			defer func() {
				if p := recover(); p != nil {
					end = fmt.Errorf("recovered from panic: %v", p)
				}
			}()
			buf := make([]byte, 4096)
			n, err := res.sc.Read(buf)
			got, end = buf[:n], err
		}()
		if isPanicErr(end) {
			add("panic", "Read of a frame with length field out of range panicked: "+end.Error())
			return fs, "panic"
		}
		if end == nil || len(got) > 0 {
			add("bytes-never-written-delivered", fmt.Sprintf("Read of a frame with length field %d returned %d bytes, err=%v", badLengths[sp.Param], len(got), end))
			return fs, "delivered"
		}
		return fs, "rejected:" + errClass(end)

	case "claim-third-party-key-own-signature":
		res := s.finish(e.seal(authMsg(keyW.PublicKey, ownSig)))
		return fs, mustReject(res, &keyW.PublicKey)

	case "claim-third-party-key-replayed-signature":
		// relay: obtain the third party's genuine authentication message in another session ...
		sw, earlyW := startEvil(handshakeVictim(keyW), !sp.Lower, nil)
		defer sw.close()
		if earlyW != nil || sw.vPub == nil || !pubEq(*sw.vPub, keyW.PublicKey) {
			add("clean-session-failed", "could not obtain the third party's auth message in a separate session")
			return fs, "no-relay"
		}
		// ... and present it to the victim
		res := s.finish(e.seal(authMsg(keyW.PublicKey, sw.vAuth.Sig)))
		return fs, mustReject(res, &keyW.PublicKey)

	case "claim-third-party-key-malformed-signature":
		var sg []byte
		pub := keyW.PublicKey
		switch sigShapes[sp.Param] {
		case "empty":
		case "64-zero":
			sg = make([]byte, 64)
		case "65-zero":
			sg = make([]byte, 65)
		case "65-ff":
			sg = bytes.Repeat([]byte{0xff}, 65)
		case "66-bytes":
			sg = append(append([]byte(nil), ownSig...), 0)
		case "own-sig-v-flipped":
			sg = append([]byte(nil), ownSig...)
			sg[64] ^= 1
		case "own-sig-truncated-64":
			sg = append([]byte(nil), ownSig[:64]...)
		case "own-sig-v+27":
			sg = append([]byte(nil), ownSig...)
			sg[64] += 27
		case "r-zero":
			sg = append([]byte(nil), ownSig...)
			for i := 0; i < 32; i++ {
				sg[i] = 0
			}
		case "third-party-pubkey-bytes":
			sg = append([]byte(nil), crypto.FromECDSAPub(&keyW.PublicKey)...)
		}
		res := s.finish(e.seal(authMsg(pub, sg)))
		return fs, mustReject(res, &keyW.PublicKey)

	case "own-key-signature-over-other-challenge":
		other := e.challenge
		other[0] ^= 1
		sg, _ := crypto.Sign(other[:], keyE)
		res := s.finish(e.seal(authMsg(keyE.PublicKey, sg)))
		return fs, mustReject(res, nil)

	case "own-key-signature-by-third-party":
		// the third party's signature over THIS challenge would be valid for the third party's key;
		// claimed under the attacker's key it must not verify
		sg, _ := crypto.Sign(e.challenge[:], keyW)
		res := s.finish(e.seal(authMsg(keyE.PublicKey, sg)))
		return fs, mustReject(res, nil)

	case "auth-message-sealed-with-receive-key":
		// sealed with the key of the other direction (what a passive reflection would amount to)
		e.sendAead, e.recvAead = e.recvAead, e.sendAead
		res := s.finish(e.seal(authMsg(keyE.PublicKey, ownSig)))
		return fs, mustReject(res, nil)

	case "reflect-victims-auth-message":
		// The challenge is the same on both sides, so the victim's own (key, signature) pair is a
		// valid authentication message for the victim's key in this very session. The secret
		// connection by itself accepts it (measured, reported as information); the property is
		// decided for this case at the peer-connection level in the transport phase, which must
		// reject a peer that authenticates as the node itself.
		bz, err := protoio.MarshalDelimited(&s.vAuth)
		if err != nil {
			panic(err)
		}
		res := s.finish(e.seal(bz))
		judgeCommon(res)
		if res.ok() {
			if pubEq(res.sc.RemotePubKey(), keyV.PublicKey) {
				r.Add("info_secret_connection_alone_accepts_reflection_of_own_identity", 1)
				return fs, "accepted-as-self"
			}
			add("wrong-remote-key", "reflected handshake completed with a RemotePubKey() that is neither party's claim")
			return fs, "accepted-other"
		}
		r.Add("info_secret_connection_rejects_reflection_of_own_identity", 1)
		return fs, "rejected"
	}
	panic("harness: unknown evil scenario " + sp.Scenario)
}

// readAll reads from a connection in synchronous mode until an error (normally the stall).
func readAll(c io.Reader, bufSize int) (got []byte, end error) {
	defer func() {
		if p := recover(); p != nil {
			end = fmt.Errorf("recovered from panic: %v", p)
		}
	}()
	buf := make([]byte, bufSize)
	for i := 0; i < 100000; i++ {
		n, err := c.Read(buf)
		got = append(got, buf[:n]...)
		if err != nil {
			return got, err
		}
	}
	return got, errors.New("reader still delivering after 100000 reads")
}
