package main

// Sessions between two REAL SecretConnections over the checker's pipe, and the man-in-the-middle
// staging. The two handshakes run in two goroutines (MakeSecretConnection itself forks a writer and a
// reader task per phase); everything after the handshake is driven from one goroutine.
//
// Why the stall detection is exact although goroutines of the code under test are involved:
// the manipulated direction P->V is HELD: what P writes is only recorded, V's inbox is fed by the
// checker alone. Once the checker has fed everything it is going to feed it sets feedDone; from then
// on nobody can ever add a byte to V's inbox, so "V's Read finds the inbox empty" is precisely "V would
// block for ever" and is answered with errStall. V's own progress never depends on V's writes.
// The only waits of the checker are on writes that the protocol makes unconditionally (each side
// writes its ephemeral key without reading anything; it writes its auth frame as soon as it has read
// the peer's ephemeral key) or on the return of a handshake that has everything it needs.

import (
	"bytes"
	"crypto/ecdsa"
	"fmt"
	"runtime/debug"
	"strings"

	"github.com/kardiachain/go-kardia/lib/p2p/conn"
)

const (
	frameSize  = conn.VerifC20SealedFrameSize // sealed frame on the wire
	dataMax    = conn.VerifC20DataMaxSize     // payload bytes per frame
	lenSize    = conn.VerifC20DataLenSize     // encrypted chunk-length field
	plainFrame = conn.VerifC20TotalFrameSize  // sealed frame minus the tag
)

type finding struct{ sig, what string }

func sig(class, oracle string) string {
	return "C20|input-class=" + class + "|oracle=" + oracle
}

type hsResult struct {
	sc       *conn.SecretConnection
	err      error
	panicked string
}

func (h hsResult) ok() bool { return h.err == nil && h.panicked == "" && h.sc != nil }

func (h hsResult) String() string {
	switch {
	case h.panicked != "":
		return "panic: " + firstLine(h.panicked)
	case h.err != nil:
		return "error: " + h.err.Error()
	case h.sc == nil:
		return "nil connection without error"
	}
	return "ok"
}

func firstLine(s string) string {
	if i := strings.IndexByte(s, '\n'); i >= 0 {
		return s[:i]
	}
	return s
}

// isPanicErr: async.Parallel (used by the handshake) converts a panic inside a task into an error.
func isPanicErr(err error) bool {
	return err != nil && (strings.Contains(err.Error(), "panic in task") || strings.Contains(err.Error(), "recovered from panic"))
}

func errClass(err error) string {
	switch {
	case err == nil:
		return "none"
	case err == errStall || strings.Contains(err.Error(), errStall.Error()):
		return "stall"
	case isPanicErr(err):
		return "panic"
	case strings.Contains(err.Error(), "failed to decrypt"):
		return "decrypt"
	case strings.Contains(err.Error(), "challenge verification failed"):
		return "challenge"
	case strings.Contains(err.Error(), "chunkLength is greater"):
		return "frame-length"
	case strings.Contains(err.Error(), "EOF"):
		return "eof"
	}
	return "other"
}

func goHandshake(e *end, key *ecdsa.PrivateKey, after func()) <-chan hsResult {
	ch := make(chan hsResult, 1)
	go func() {
		var res hsResult
		defer func() {
			if p := recover(); p != nil {
				res.panicked = fmt.Sprintf("%v\n%s", p, debug.Stack())
			}
			if after != nil {
				after()
			}
			ch <- res
		}()
		res.sc, res.err = conn.MakeSecretConnection(e, key)
	}()
	return ch
}

func pubEq(a, b ecdsa.PublicKey) bool {
	return a.X != nil && b.X != nil && a.Y != nil && b.Y != nil && a.X.Cmp(b.X) == 0 && a.Y.Cmp(b.Y) == 0
}

// ---------------------------------------------------------------------------------------------
// clean pair

type pair struct {
	p          *pipe
	a, b       *conn.SecretConnection
	keyA, keyB *ecdsa.PrivateKey
}

// newCleanPair performs an unmanipulated handshake. Blocking reads, no stall possible: each side
// gets everything the other writes. If one side fails the pipe is closed so the other returns.
func newCleanPair(keyA, keyB *ecdsa.PrivateKey) (*pair, []finding) {
	p := newPipe()
	chA := goHandshake(p.a, keyA, nil)
	chB := goHandshake(p.b, keyB, nil)
	var ra, rb hsResult
	select {
	case ra = <-chA:
		if !ra.ok() {
			p.closeAll()
		}
		rb = <-chB
	case rb = <-chB:
		if !rb.ok() {
			p.closeAll()
		}
		ra = <-chA
	}
	var fs []finding
	if ra.panicked != "" || rb.panicked != "" || isPanicErr(ra.err) || isPanicErr(rb.err) {
		fs = append(fs, finding{sig("clean-handshake", "panic"), fmt.Sprintf("A: %v; B: %v", ra, rb)})
	}
	if !ra.ok() || !rb.ok() {
		fs = append(fs, finding{sig("clean-handshake", "clean-session-failed"), fmt.Sprintf("unmanipulated handshake failed: A: %v; B: %v", ra, rb)})
		p.closeAll()
		return nil, fs
	}
	if !pubEq(ra.sc.RemotePubKey(), keyB.PublicKey) || !pubEq(rb.sc.RemotePubKey(), keyA.PublicKey) {
		fs = append(fs, finding{sig("clean-handshake", "wrong-remote-key"), "RemotePubKey() is not the key of the party at the other end"})
	}
	noteHandshakeWrites(p)
	return &pair{p: p, a: ra.sc, b: rb.sc, keyA: keyA, keyB: keyB}, fs
}

// noteHandshakeWrites measures the premise of the staging (2 writes per side: ephemeral key message,
// one sealed auth frame) on every clean handshake.
func noteHandshakeWrites(p *pipe) {
	for _, d := range []*dir{p.ab, p.ba} {
		u := d.unitsCopy()
		if len(u) == 2 && len(u[1]) == frameSize {
			r.Add("clean_handshake_directions_with_2_writes", 1)
			r.Distinct("eph_message_sizes", fmt.Sprint(len(u[0])))
		} else {
			r.Add("clean_handshake_directions_with_other_write_pattern", 1)
		}
	}
}

func (pr *pair) close() { pr.p.closeAll() }

// syncMode makes both directions synchronous: whatever was written is all there is.
func (pr *pair) syncMode(record bool) {
	for _, d := range []*dir{pr.p.ab, pr.p.ba} {
		d.mu.Lock()
		d.feedDone = true
		d.record = record
		d.units = nil
		d.mu.Unlock()
	}
}

// ---------------------------------------------------------------------------------------------
// man-in-the-middle sessions

// the data P sends after the handshake: 3 Write calls -> 4 frames (1024 | 1024+1024 | 500)
var mitmWrites = []int{1024, 2048, 500}
var mitmFramePlain = []int{1024, 1024, 1024, 500}

func pattern(seed, n int) []byte {
	b := make([]byte, n)
	for i := range b {
		b[i] = byte(seed*31 + i*7 + (i >> 8) + 13)
	}
	return b
}

type sessOutcome struct {
	victimLeast bool
	orderKnown  bool
	hsP, hsV    hsResult
	hsConsumed  int64
	units       [][]byte // what P really wrote (eph, auth frame, data frames)
	orig, fed   []byte   // the P->V byte stream as written and as delivered
	plaintext   []byte
	delivered   []byte
	endErr      error
	dataPhase   bool
}

// ephOf extracts the 32-byte ephemeral key from the first handshake unit (delimited BytesValue).
func ephOf(unit []byte) ([]byte, bool) {
	if len(unit) != 35 || unit[0] != 34 || unit[1] != 0x0a || unit[2] != 32 {
		return nil, false
	}
	return unit[3:], true
}

// runMitmSession: P on end a, V (the victim of the manipulation) on end b.
func runMitmSession(keyP, keyV *ecdsa.PrivateKey, m manip, prev [][]byte) (out sessOutcome) {
	p := newPipe()
	defer p.closeAll()
	p.ab.hold = true // P->V is in the hands of the man in the middle
	chP := goHandshake(p.a, keyP, p.ab.setWriterDone)
	chV := goHandshake(p.b, keyV, nil)

	setOrder := func() {
		if pe, ok := ephOf(firstUnit(p.ab)); ok {
			if ve, ok := ephOf(firstUnit(p.ba)); ok {
				out.orderKnown = true
				out.victimLeast = bytes.Compare(ve, pe) < 0
			}
		}
	}

	if m.early() {
		// The manipulation touches the ephemeral-key message: P cannot finish before V has answered,
		// so only the two handshake units exist. Both are written unconditionally by P (it gets V's
		// ephemeral key unmodified), then everything is fed at once.
		p.ab.waitUnits(2)
		p.ba.waitUnits(1)
		setOrder()
		out.units = p.ab.unitsCopy()
		out.orig = concat(out.units...)
		out.fed = m.apply(out.units, prev, firstUnit(p.ba))
		p.ab.feed(out.fed)
		p.ab.setFeedDone(true)
		out.hsV = <-chV
		out.hsConsumed = p.ab.consumedBytes()
		if !out.hsV.ok() {
			p.closeAll()
		}
		out.hsP = <-chP
		return
	}

	// Late mode: the ephemeral key goes through untouched, P completes (V answers unconditionally),
	// P writes its data, and only then V gets the (manipulated) rest: auth frame + data frames.
	if !p.ab.waitUnits(1) {
		out.hsP = <-chP
		p.closeAll()
		out.hsV = <-chV
		return
	}
	p.ab.feed(firstUnit(p.ab))
	select {
	case out.hsP = <-chP:
	case out.hsV = <-chV: // V cannot succeed without P's auth frame: this is a failure
		p.closeAll()
		out.hsP = <-chP
		out.units = p.ab.unitsCopy()
		return
	}
	if !out.hsP.ok() {
		p.closeAll()
		out.hsV = <-chV
		out.units = p.ab.unitsCopy()
		return
	}
	setOrder()
	for i, n := range mitmWrites {
		d := pattern(i+1, n)
		out.plaintext = append(out.plaintext, d...)
		if _, err := out.hsP.sc.Write(d); err != nil {
			out.hsP.err = fmt.Errorf("Write after handshake: %w", err)
			p.closeAll()
			out.hsV = <-chV
			return
		}
	}
	out.units = p.ab.unitsCopy()
	out.orig = concat(out.units...)
	out.fed = m.apply(out.units, prev, firstUnit(p.ba))
	l0 := len(out.units[0])
	if len(out.fed) < l0 || !bytes.Equal(out.fed[:l0], out.units[0]) {
		panic("harness: a late-mode manipulation touched the ephemeral-key unit")
	}
	p.ab.feed(out.fed[l0:])
	p.ab.setFeedDone(true)
	out.hsV = <-chV
	out.hsConsumed = p.ab.consumedBytes()
	if !out.hsV.ok() {
		return
	}
	// data phase, single goroutine: V reads until an error or the stall
	out.dataPhase = true
	func() {
		defer func() {
			if pv := recover(); pv != nil {
				out.endErr = fmt.Errorf("recovered from panic: %v", pv)
			}
		}()
		buf := make([]byte, 700)
		for i := 0; i < 1000; i++ {
			n, err := out.hsV.sc.Read(buf)
			out.delivered = append(out.delivered, buf[:n]...)
			if err != nil {
				out.endErr = err
				return
			}
		}
		out.endErr = fmt.Errorf("reader still delivering after 1000 reads (%d bytes)", len(out.delivered))
	}()
	return
}

func firstUnit(d *dir) []byte {
	u := d.unitsCopy()
	if len(u) == 0 {
		return nil
	}
	return u[0]
}

// judgeMitm applies the oracle to one man-in-the-middle session.
func judgeMitm(m manip, o *sessOutcome, keyP, keyV *ecdsa.PrivateKey) (fs []finding, outcome string) {
	class := m.class(len(o.units))
	add := func(oracle, what string) { fs = append(fs, finding{sig(class, oracle), what}) }

	if o.hsP.panicked != "" || o.hsV.panicked != "" || isPanicErr(o.hsP.err) || isPanicErr(o.hsV.err) {
		add("panic", fmt.Sprintf("handshake panicked: P: %v; V: %v", o.hsP, o.hsV))
	}
	if o.hsP.ok() && !pubEq(o.hsP.sc.RemotePubKey(), keyV.PublicKey) {
		add("wrong-remote-key", "P completed the handshake but RemotePubKey() is not V's key")
	}
	if o.hsV.ok() && !pubEq(o.hsV.sc.RemotePubKey(), keyP.PublicKey) {
		add("wrong-remote-key", "V completed the handshake but RemotePubKey() is not P's key")
	}
	changed := !bytes.Equal(o.fed, o.orig)
	c := int(o.hsConsumed)
	consumedAltered := c > len(o.orig) || c > len(o.fed) || !bytes.Equal(o.fed[:c], o.orig[:c])
	if o.hsV.ok() && consumedAltered {
		add("handshake-completed-on-altered-stream", fmt.Sprintf("V's handshake succeeded although the %d bytes it consumed differ from what P wrote", c))
	}
	if m.Kind == "none" || !m.touchesHandshake() {
		if !o.hsP.ok() || !o.hsV.ok() {
			add("clean-session-failed", fmt.Sprintf("handshake over unmanipulated handshake units failed: P: %v; V: %v", o.hsP, o.hsV))
			return fs, "hs-failed"
		}
	}
	if !o.hsV.ok() {
		if !changed {
			add("clean-session-failed", fmt.Sprintf("V's handshake failed on an unchanged stream: %v", o.hsV))
		}
		return fs, "hs-rejected"
	}
	if !o.dataPhase {
		return fs, "hs-ok-no-data"
	}
	// data phase
	if isPanicErr(o.endErr) {
		add("panic", "Read panicked: "+o.endErr.Error())
	}
	base := len(o.units[0]) + len(o.units[1])
	cp := commonPrefix(o.fed, o.orig)
	intactFrames := 0
	if cp >= base {
		intactFrames = (cp - base) / frameSize
	}
	if intactFrames > len(mitmFramePlain) {
		intactFrames = len(mitmFramePlain)
	}
	intactPlain := 0
	for i := 0; i < intactFrames; i++ {
		intactPlain += mitmFramePlain[i]
	}
	ec := errClass(o.endErr)
	if !bytes.HasPrefix(o.plaintext, o.delivered) {
		add("altered-bytes-delivered", fmt.Sprintf("the reader got %d bytes that are not a prefix of the %d bytes written (first difference at %d)", len(o.delivered), len(o.plaintext), commonPrefix(o.delivered, o.plaintext)))
		return fs, "delivered-altered"
	}
	if !changed {
		if len(o.delivered) != len(o.plaintext) || ec != "stall" {
			add("clean-session-failed", fmt.Sprintf("unmanipulated session: %d of %d bytes delivered, ended with %v", len(o.delivered), len(o.plaintext), o.endErr))
		}
		return fs, "delivered-all"
	}
	if len(o.delivered) > intactPlain {
		add("bytes-of-altered-frame-delivered", fmt.Sprintf("%d bytes delivered but only %d frames (%d bytes) arrived unaltered and in place", len(o.delivered), intactFrames, intactPlain))
	}
	if len(o.delivered) < intactPlain {
		add("intact-prefix-not-delivered", fmt.Sprintf("only %d bytes delivered although %d frames (%d bytes) arrived unaltered and in place", len(o.delivered), intactFrames, intactPlain))
	}
	// What follows the intact frames: if it is less than one whole frame the reader cannot have
	// anything to verify and may only stall (a cut, or a short piece of garbage at the very end);
	// as soon as one whole (necessarily wrong) frame is available it must be refused with an error.
	rest := len(o.fed) - (base + intactFrames*frameSize)
	if rest < frameSize {
		if bytes.HasPrefix(o.orig, o.fed) {
			return fs, "cut:" + ec
		}
		return fs, "short-garbage-tail:" + ec
	}
	if ec == "stall" || ec == "none" {
		add("manipulation-undetected", fmt.Sprintf("the whole manipulated stream was consumed without an error (%d bytes delivered)", len(o.delivered)))
		return fs, "undetected"
	}
	return fs, "detected:" + ec
}

func commonPrefix(a, b []byte) int {
	n := len(a)
	if len(b) < n {
		n = len(b)
	}
	for i := 0; i < n; i++ {
		if a[i] != b[i] {
			return i
		}
	}
	return n
}
