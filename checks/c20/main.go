// C20 — peer connections are authenticated, tamper-evident, ordered and exactly-once.
//
// Exhaustive enumeration of stated bounded spaces on the REAL lib/p2p/conn.SecretConnection,
// lib/p2p/conn.MConnection and lib/p2p.MultiplexTransport.upgrade, over an in-memory pipe the checker
// owns (pipe.go): all scheduling, delivery, manipulation and stall detection is the checker's; no
// wall clock takes part in any oracle. See DESIGN.md section 4 / C20 and MUTANTS.md.
//
//	normal run:      ./run.sh C20 quick|thorough
//	race pass:       VERIF_RACE=1 VERIF_NOEVIDENCE=1 C20_RACE_PASS=1 ./run.sh C20 quick
//	                 (only the free-running two-writer-goroutines scenario, under `go build -race`;
//	                 a detected race makes the process exit 66)
package main

import (
	"crypto/ecdsa"
	"fmt"
	"os"
	"runtime"
	"runtime/debug"
	"runtime/pprof"
	"sort"
	"strconv"
	"strings"
	"sync"
	"sync/atomic"
	"time"

	"github.com/kardiachain/go-kardia/lib/crypto"

	"verif/mc/explore"
	"verif/mc/par"
	"verif/mc/report"
)

var r *report.Run
var deadlineAt time.Time
var stopProf = func() {}

var keyHex = []string{
	"b71c71a67e1177ad4e901695e1b4b9ee17ae16c6668d313eac2f96dbcda3f291",
	"8a1f9a8f95be41cd7ccb6168179afb4504aefe388d1e14474d32c45c72ce7b7a",
	"49a7b37aa6f6645917e7b807e9d1c00d4fa71f18343b0d4122a4d2df64dd6fee",
}
var keys []*ecdsa.PrivateKey

// caseSpec is the replayable description of one executed case.
type caseSpec struct {
	Phase       string       `json:"phase"`
	Mitm        *manip       `json:"mitm,omitempty"`
	VictimLeast *bool        `json:"victim_eph_is_lower,omitempty"`
	Evil        *evilSpec    `json:"evil,omitempty"`
	Transport   *tSpec       `json:"transport,omitempty"`
	Reflect     *reflectSpec `json:"reflect,omitempty"`
	Chunk       *chunkSpec   `json:"chunk,omitempty"`
	Merge       *mergeSpec   `json:"merge,omitempty"`
	Free        *freeSpec    `json:"free,omitempty"`
	Ilv         *ilvSpec     `json:"interleaving,omitempty"`
	FlushStop   *fsSpec      `json:"flushstop,omitempty"`
	Mconn       *mconnSpec   `json:"mconn,omitempty"`
}

// ---------------------------------------------------------------------------------------------
// progress watchdog: a machinery safety net only (exit 3), never an oracle

var progress int64

func tick() { atomic.AddInt64(&progress, 1) }

func startWatchdog() {
	go func() {
		last, lastChange := int64(-1), time.Now()
		for {
			time.Sleep(5 * time.Second)
			p := atomic.LoadInt64(&progress)
			if p != last {
				last, lastChange = p, time.Now()
				continue
			}
			if time.Since(lastChange) > 300*time.Second {
				buf := make([]byte, 1<<20)
				buf = buf[:runtime.Stack(buf, true)]
				fmt.Fprintf(os.Stderr, "%s\n", buf)
				fmt.Println("MACHINERY-ERROR property=C20 no case completed for 300 s (hang inside the code under test or the harness); goroutine dump on stderr")
				os.Exit(3)
			}
		}
	}()
}

// ---------------------------------------------------------------------------------------------

var confirmed sync.Map

// reportFindings confirms (5 re-executions on fresh objects, all must show the same signature) and
// records violations. A finding that does not reproduce is never reported as a violation; it is
// counted, and if the run ends without any confirmed violation it is a machinery error (exit 3).
var racePassMode bool
var irreproducible int64
var firstIrreproducible atomic.Value

func reportFindings(c caseSpec, fs []finding) {
	if racePassMode {
		// free-running under the race detector: the oracles hold for every schedule, nothing to re-execute;
		// the main run picks these lines up (VERIF_RACE_PASS=failed:1:<output>)
		for _, f := range fs {
			fmt.Printf("RACEPASS-FINDING %s: %s\n", f.sig, f.what)
			r.Violation(f.sig, f.what, c)
		}
		return
	}
	for _, f := range fs {
		if _, seen := confirmed.Load(f.sig); seen {
			r.Violation(f.sig, f.what, c)
			continue
		}
		ok := true
		for i := 0; i < 5 && ok; i++ {
			ok = false
			for _, g := range runCase(c) {
				if g.sig == f.sig {
					ok = true
				}
			}
		}
		if !ok {
			if atomic.AddInt64(&irreproducible, 1) == 1 {
				firstIrreproducible.Store(f.sig + ": " + f.what)
			}
			continue
		}
		confirmed.Store(f.sig, true)
		r.Violation(f.sig, f.what, c)
	}
}

// mitmOnce runs sessions of one manipulation until the victim's ephemeral key has the wanted order
// relative to the peer's (nil: first session counts). Returns the judged session.
func mitmOnce(m manip, wantLeast *bool) (fs []finding, outcome string, o sessOutcome, sessions int) {
	keyP, keyV := keys[0], keys[1]
	for try := 0; try < 64; try++ {
		var prev [][]byte
		if m.Kind == "cross-replace" || m.Kind == "cross-insert" || m.Kind == "cross-all" {
			rec := runMitmSession(keyP, keyV, manip{Kind: "none"}, nil)
			sessions++
			prev = rec.units
			if len(prev) != nUnits {
				f, oc := judgeMitm(manip{Kind: "none"}, &rec, keyP, keyV)
				return f, oc, rec, sessions
			}
		}
		o = runMitmSession(keyP, keyV, m, prev)
		sessions++
		tick()
		if wantLeast == nil || !o.orderKnown || o.victimLeast == *wantLeast {
			fs, outcome = judgeMitm(m, &o, keyP, keyV)
			return
		}
		// wrong order: judge it all the same (every session counts), keep looking for the other order
		if f, _ := judgeMitm(m, &o, keyP, keyV); len(f) > 0 {
			return f, "other-order", o, sessions
		}
	}
	panic("harness: wanted ephemeral key order not seen in 64 sessions")
}

// runCase re-executes one case on fresh objects.
func runCase(c caseSpec) (fs []finding) {
	switch c.Phase {
	case "mitm":
		fs, _, _, _ = mitmOnce(*c.Mitm, c.VictimLeast)
	case "evil":
		fs, _ = runEvil(*c.Evil)
	case "transport":
		fs, _ = runTransport(*c.Transport)
	case "transport-reflection":
		fs, _ = runReflect(*c.Reflect)
	case "chunk", "merge", "free":
		pr, hf := newCleanPair(keys[0], keys[1])
		if pr == nil {
			return hf
		}
		defer pr.close()
		pr.syncMode(false)
		switch c.Phase {
		case "chunk":
			fs, _ = runChunk(pr, *c.Chunk, 1)
		case "merge":
			fs, _ = runMerge(pr, *c.Merge)
		case "free":
			fs, _ = runFree(pr, *c.Free)
		}
		fs = append(hf, fs...)
	case "interleave":
		fs = replayIlv(*c.Ilv)
	case "flushstop":
		fs = replayFlushStop(*c.FlushStop)
	case "flushstop-free":
		fs, _ = runFlushStopFree(c.Free.Iter)
	case "mconn":
		fs, _ = runMconn(*c.Mconn)
	default:
		fs = []finding{{sig("harness", "unknown-phase"), c.Phase}}
	}
	tick()
	return
}

// pool runs body(i) for i in [0,n) on all cores; every worker owns a context made by newCtx.
func pool(n int64, newCtx func() interface{}, body func(ctx interface{}, i int64) interface{}, endCtx func(interface{})) (done int64) {
	return poolN(par.Workers(), n, newCtx, body, endCtx)
}

func poolN(workers int, n int64, newCtx func() interface{}, body func(ctx interface{}, i int64) interface{}, endCtx func(interface{})) (done int64) {
	var next int64
	var wg sync.WaitGroup
	for w := 0; w < workers; w++ {
		wg.Add(1)
		go func() {
			defer wg.Done()
			var ctx interface{}
			if newCtx != nil {
				ctx = newCtx()
			}
			for !r.Expired() {
				i := atomic.AddInt64(&next, 1) - 1
				if i >= n {
					break
				}
				ctx = body(ctx, i)
				atomic.AddInt64(&done, 1)
			}
			if endCtx != nil && ctx != nil {
				endCtx(ctx)
			}
		}()
	}
	wg.Wait()
	return atomic.LoadInt64(&done)
}

func finishPhase(name string, done, total int64, t0 time.Time) {
	fmt.Fprintf(os.Stderr, "c20: phase %-22s %8d/%-8d cases %6.1fs\n", name, done, total, time.Since(t0).Seconds())
	r.Set("cases_"+name, done)
	if done < total {
		r.NotExhaustive(fmt.Sprintf("phase %s stopped at the deadline after %d of %d cases", name, done, total))
	}
}

// freshPairCtx: per-worker pair in synchronous mode; replaced after any finding.
func freshPair() interface{} {
	pr, hf := newCleanPair(keys[0], keys[1])
	r.Add("evaluations", 1)
	r.Add("clean_handshakes", 1)
	if pr == nil {
		reportFindings(caseSpec{Phase: "mitm", Mitm: &manip{Kind: "none"}}, hf)
		return nil
	}
	pr.syncMode(false)
	return pr
}

func closePair(ctx interface{}) {
	if pr, ok := ctx.(*pair); ok && pr != nil {
		pr.close()
	}
}

func main() {
	racePass := os.Getenv("C20_RACE_PASS") == "1"
	r = report.New("C20", "exploration")
	for _, h := range keyHex {
		k, err := crypto.HexToECDSA(h)
		if err != nil {
			panic(err)
		}
		keys = append(keys, k)
	}
	mergeCache[[2]int{3, 2}] = merges(3, 2)
	mergeCache[[2]int{3, 3}] = merges(3, 3)
	startWatchdog()
	// Every MConnection allocates two 64 KiB buffers; with the tiny live heap of this checker the
	// default pacer would collect every few dozen cases. Collect on a memory budget instead.
	debug.SetGCPercent(-1)
	debug.SetMemoryLimit(1024 << 20)
	if pf := os.Getenv("VERIF_C20_PROF"); pf != "" {
		f, _ := os.Create(pf)
		pprof.StartCPUProfile(f)
		stopProf = pprof.StopCPUProfile
	}

	if r.ReplayPath != "" {
		var c caseSpec
		if err := r.LoadReplay(&c); err != nil {
			fmt.Println("MACHINERY-ERROR property=C20 cannot load replay:", err)
			os.Exit(2)
		}
		fmt.Printf("replaying phase=%s\n", c.Phase)
		fs := runCase(c)
		if len(fs) > 0 && strings.HasSuffix(fs[len(fs)-1].sig, "oracle=replay-diverged") {
			fmt.Println("observed: the recorded schedule cannot be executed on this code (a writer that could move when it was recorded cannot move now, or the reverse): " + fs[len(fs)-1].what)
			fs = nil
		}
		if len(fs) == 0 {
			fmt.Println("observed: every oracle holds for this case")
			fmt.Println("OK property=C20 replayed case holds")
			os.Exit(0)
		}
		for _, f := range fs {
			fmt.Printf("observed: %s: %s\n", f.sig, f.what)
		}
		fmt.Printf("VIOLATION property=C20 replay=%s (still violates)\n", r.ReplayPath)
		os.Exit(1)
	}

	budget := 50 * time.Second
	if r.Thorough() {
		budget = 13 * time.Minute
		debug.SetMemoryLimit(1792 << 20) // the set of distinct cases alone takes several hundred MiB
	}
	if s := os.Getenv("VERIF_C20_BUDGET_S"); s != "" {
		if v, err := strconv.Atoi(s); err == nil {
			budget = time.Duration(v) * time.Second
		}
	}
	r.SetDeadline(budget)
	deadlineAt = time.Now().Add(budget)

	if racePass {
		racePassMode = true
		debug.SetGCPercent(100) // the detector's shadow memory multiplies every live byte: collect normally here
		racePassMain()
		return
	}

	if os.Getenv("VERIF_C20_ONLY") == "flushstop" {
		phaseFlushStop()
	} else if os.Getenv("VERIF_C20_ONLY") == "interleave" { // development aid: measure one phase alone (exits through the vacuity guards)
		phaseInterleave()
	} else {
		phaseEvil()
		phaseTransport()
		phaseMitm()
		phaseStreams()
		phaseFlushStop()
		phaseMconn()
	}

	km, kw, kr, ml := 3, 4, 4, 2
	if r.Thorough() {
		km, kw, kr, ml = 4, 6, 5, 3
	}
	r.Set("rule", fmt.Sprintf("REAL code over a pipe the checker owns. "+
		"(a1) chunking: per direction every (Write-size sequence, Read-buffer sequence) with sizes from {1,1023,1024,1025,2048}: all write sequences of <=%d calls completed to a %d-byte stream x all read-buffer sequences of <=%d calls (then 4096) x {all writes first, read after each write}, plus a reduced product with the transport handing out at most {1,1000} bytes per Read; oracle bytes read == bytes written, once, in order, then the reader stalls. "+
		"(a2) two writers per side: all merges of their Write calls for all size lists of <=%d calls each (one goroutine). The premise 'a whole Write call is atomic' is EXPLORED: two real writer goroutines on one real SecretConnection, gated before every Write call and inside the pipe at every underlying conn.Write (sealed frame in hand); at every quiescent point (each writer finished, parked at a gate, or blocked inside the code under test, the last read off the goroutine's scheduler state in a stop-the-world stack snapshot) verif/mc/explore chooses whom to release, default = the writer that ran last, switching away from a writer that could continue = 1 preemption; quick: all unordered pairs of size lists of <=2 calls over {1,1024,1025,2048,3000} plus 3-call lists over {1,3000}, at least one multi-frame Write per scenario, all schedules with <=2 preemptions; thorough: lists of <=2 calls with <=3 preemptions in both directions, lists of <=3 calls (<=5 calls in total, 3+3 over {1,3000}) with <=2 preemptions; oracle: every Write returns (len,nil), the reader gets a concatenation of whole intact payloads, each writer's in its own order, all of them, no error, no deadlock. Plus free-running iterations with two real writer goroutines and a reader per side (the -race pass runs that body). "+
		"(a3) man in the middle on a session of ephemeral-key message + auth frame + 4 data frames between two real SecretConnections, for BOTH lexical orders of the ephemeral keys: one bit flipped at first/middle/last byte of header, body and tag of every frame (and 6 positions of the key message), every unit dropped / cut off / duplicated / swapped with its successor / truncated at {1, half, len-1, tag only} with and without the rest following, every earlier unit of the same session inserted before or put in place of every later one, every unit of an earlier session of the same two identities inserted / substituted, the whole earlier stream, the ephemeral key replaced by 12 low-order points, the victim's own key, all-ff; oracle: error or stall before any altered byte is delivered, intact prefix delivered, anything but a pure cut of the tail detected as an ERROR. "+
		"(a4) active attacker (independent implementation of the handshake, validated against the real one in both directions): claims a third party's key with own / relayed / 10 malformed signatures, signs another challenge, reflects the victim's message, seals with the wrong direction key, sends low-order keys, and as authenticated peer sends frames with 8 out-of-range length fields. "+
		"(c0) MConnection.FlushStop against a busy send routine, EXPLORED (real started MConnection; send routine and FlushStop goroutine gated inside conn.Write and at the start of every flush; the throttle-timer event is an operation of the checker; quiescence from goroutine states as in a2): every environment script over {TrySend next message, throttle timer fires} with 1..3 messages and <=2 timer events followed by FlushStop(), messages of {300, maxPayload+1} bytes in every combination on one channel / alternating between two, plus a first message of 66000 bytes (write buffer overflows inside a batch), all schedules with <=2 preemptions (thorough: sizes {1,300,maxPayload+1}, <=5 preemptions); oracle: the wire decodes (reference receiver and real receiving MConnection) to exactly the messages accepted before FlushStop, once each, intact, in per-channel order, no deadlock. The -race pass (checks/c20/RACEPASS) additionally runs FlushStop free against a send routine stalled in a slow write. "+
		"(b) MultiplexTransport.upgrade: {inbound, dialled id = / != authenticated id} x {NodeInfo id = authenticated / third party / the node's own} x {peer key foreign / the node's own} x {compatible, other network, other block version, no common channel} x {valid, 4 invalid NodeInfos}, accepted iff all consistent, foreign, compatible, valid; plus the reflecting attacker x {inbound, dialled self, dialled other} x {NodeInfo reflected, own, none}. "+
		"(c) MConnection: real unstarted sender driven op by op, real started receiver on the produced bytes, reference receiver on the same bytes: all message vectors of <=%d messages over 3 channels x 8 sizes {0,1,maxPayload-1,maxPayload,maxPayload+1,3*maxPayload,capacity,capacity+1} x {0,1,all} packets sent between enqueues x 2 flush policies (thorough: {0,1,2,all} x 3 for <=3 messages, {0,all} x 2 for 4 messages); every op sequence of length <=5 (thorough 7, plus the batch step) over {enqueue(3 channels x {1,maxPayload+1,capacity+1}), send one packet, flush} with <=3 enqueues and send-queue capacity 1, read back in chunks as written and 7 bytes at a time; hand-made packet streams: every merge of the packets of three multi-packet messages on three channels, unknown channel ids, a never-ending message, exact capacity +0/+1 byte, ping/pong in between; the repository's default capacity (21 MiB) +0/+1; message vectors through the full stack MConnection -> SecretConnection -> pipe -> SecretConnection -> MConnection. "+
		"evaluations = sessions / cases executed on the real code. distinct_nontrivial = distinct (phase, input class, key order where relevant, observed outcome [, frame layout + read return sizes for chunkings, scenario + wire order of the frames + payload order for controlled interleavings, size/channel vector + op string for MConnection]) over cases that are non-trivial: the stream spans >=2 frames (chunkings), the manipulation really changed the delivered bytes (man in the middle), the attacker got through the key exchange (attacker), the upgrade ran a handshake (transport), >=1 message was queued or >=1 packet parsed (MConnection).", kw, streamLen, kr, ml, km))
	r.Assume(
		"cryptographic hardness (X25519, ChaCha20-Poly1305, ECDSA/secp256k1, HKDF, merlin) is assumed; ephemeral keys and hence ciphertexts are random per run, the outcome classes are not",
		"FlushStop exploration: what is between two gates runs freely inside the code under test (e.g. the send routine draining a channel queue after a wake-up); Go's select picks at random among ready cases (quit / send after FlushStop closed the quit channel): both paths lead to the same gate sequence and the same wire; a send routine that lingers in its select after FlushStop returned is not judged; messages offered after FlushStop was called are out of scope",
		"controlled interleavings: a writer counts as blocked inside the code under test when a stop-the-world goroutine snapshot shows it in a waiting state (mutex, rwmutex, cond, wait group, channel) entered directly from a function of the repository while every other writer is parked at a gate of the checker or finished; Go 1.23 stack-dump format; the phase runs with GOMAXPROCS(1)",
		"a reader that would block for ever (empty inbox, the checker has nothing more to feed) is given the error 'connection stalls'; it stands for the expiry of the peer's deadline, which the checker owns instead of the wall clock; stalling is an accepted outcome only for manipulations of the handshake units and for pure cuts of the tail",
		"man in the middle: the manipulated direction is held by the checker; it relies on the handshake writing exactly two units per side unconditionally (ephemeral-key message, one auth frame), measured on every clean handshake (clean_handshake_directions_with_2_writes)",
		"weakest reading for the reflection of a node's own authentication message by an active attacker: the SecretConnection alone accepts it (the challenge is symmetric; measured, info_secret_connection_alone_accepts_reflection_of_own_identity) and documents that consumers must authenticate the remote key; the property is decided at the peer-connection level, where upgrade must (and is checked to) reject a peer authenticated as the node itself in every variant",
		"a packet whose ChannelID lies outside 0..255 but whose low byte is a configured channel is delivered on that channel (observed, info_alias_channel_*); only ids in 0..255 that are not configured are required to be refused",
		"MConnection: flow-rate throttling disabled (rates 0), ping/pong and flush timers never fire within a case (60 s / not running); the sender's choice among channels is not judged, only per-channel order",
		"per-channel delivery order is compared (not the global order); messages that TrySend refused (queue full) must not be delivered, accepted ones must",
		"intact-prefix reading: frames that arrive unaltered and in place before the first manipulated byte must be delivered (they are indistinguishable from a clean session up to there)")
	r.Exhaustive(true)
	stopProf()
	r.Set("distinct_nontrivial", nontrivial.count())
	// the verdict of run.sh's -race pass: a detector report becomes a violation in mc/report; if the pass's own
	// stream oracles fired first (exit 1) their findings are taken over here
	if rp := os.Getenv("VERIF_RACE_PASS"); strings.HasPrefix(rp, "failed:1:") {
		out, _ := os.ReadFile(strings.TrimPrefix(rp, "failed:1:"))
		for _, l := range strings.Split(string(out), "\n") {
			if strings.HasPrefix(l, "RACEPASS-FINDING ") {
				l = strings.TrimPrefix(l, "RACEPASS-FINDING ")
				if i := strings.Index(l, ": "); i > 0 {
					r.Violation(l[:i], "free-running pass under the race detector: "+l[i+2:], map[string]interface{}{"kind": "race-pass"})
				}
			}
		}
	}
	if n := atomic.LoadInt64(&irreproducible); n > 0 {
		r.Set("irreproducible_findings_not_reported", n)
		fmt.Fprintf(os.Stderr, "c20: note: %d finding(s) did not reproduce in 5 re-executions and are not reported as violations; first: %v\n", n, firstIrreproducible.Load())
		if r.NumViolations() == 0 {
			fmt.Printf("MACHINERY-ERROR property=C20 %d finding(s) did not reproduce in 5 re-executions and nothing else was found; first: %v\n", n, firstIrreproducible.Load())
			os.Exit(3)
		}
	}

	// vacuity guards (those of the later phases only bind when the deadline did not cut the run short;
	// a cut run says so in cap_reached / exhaustive=false)
	expired := r.Expired()
	r.Require(expired || r.Get("evaluations") > 20000, "fewer than 20000 cases executed")
	r.Require(r.Get("mitm_sessions_victim_eph_lower") > 50 && r.Get("mitm_sessions_victim_eph_higher") > 50, "not both lexical orders of the ephemeral keys were exercised")
	r.Require(r.Get("mitm_detected_as_error") > 100 && r.Get("mitm_stalled") > 5 && r.Get("mitm_clean_delivered_all") >= 2, "man-in-the-middle outcomes (detected / stalled / clean) not all observed")
	r.Require(r.Get("clean_handshake_directions_with_other_write_pattern") == 0 && r.Get("clean_handshake_directions_with_2_writes") > 0, "premise broken: a clean handshake does not consist of two writes per side (key message, one sealed frame)")
	r.Require(r.Get("evil_honest_accepted") >= 2, "the reference endpoint did not complete an honest handshake with the real code in both key orders")
	r.Require(r.Get("ref_endpoint_verified_victims_challenge_signature") > 0 && r.Get("ref_endpoint_rejected_victims_challenge_signature") == 0, "the reference endpoint could not verify the real side's challenge signature")
	r.Require(r.Get("evil_rejected") > 20, "attacker scenarios were not rejected/executed")
	r.Require(r.Get("transport_accepted") >= 2 && r.Get("transport_rejected") > 100, "transport matrix did not both accept and reject")
	r.Require(r.Get("transport_reflection_rejected") > 0, "the reflecting attacker was not run against the transport")
	r.Require(expired || r.Get("chunk_cases") > 1000 && r.Get("merge_cases") > 100 && r.Get("free_running_iterations") > 0, "stream phases did not run")
	r.Require(expired || r.Get("mconn_messages_delivered") > 1000 && r.Get("mconn_refused_capacity") > 10 && r.Get("mconn_refused_unknown_channel") > 0 && r.Get("mconn_trysend_refused") > 0, "MConnection outcomes (delivered / capacity refusal / unknown channel / queue full) not all observed")
	r.Require(expired || r.DistinctCount("mconn_size_classes_sent") >= 8, "not every message size class was sent")
	r.Require(expired || r.Get("mconn_stack_cases") > 0, "the full-stack MConnection cases did not run")
	r.Finish()
}

// ---------------------------------------------------------------------------------------------

func phaseEvil() {
	t0 := time.Now()
	specs := evilSpecs()
	done := pool(int64(len(specs)), nil, func(_ interface{}, i int64) interface{} {
		sp := specs[i]
		fs, outcome := runEvil(sp)
		tick()
		r.Add("evaluations", 1)
		r.Add("evil_sessions", 1)
		switch {
		case sp.Scenario == "honest" && outcome == "accepted":
			r.Add("evil_honest_accepted", 1)
		case outcome == "rejected" || outcome == "stalled" || (len(outcome) > 9 && outcome[:9] == "rejected:"):
			r.Add("evil_rejected", 1)
		}
		if outcome != "no-key-exchange" {
			nontrivial.add(fmt.Sprintf("evil|%s|%d|%v|%s", sp.Scenario, sp.Param, sp.Lower, outcome))
		}
		r.Distinct("evil_scenarios", sp.Scenario)
		if (sp.Scenario == "reflect-victims-auth-message" || sp.Scenario == "claim-third-party-key-replayed-signature") && r.WantSample() && sp.Lower {
			r.Sample(map[string]interface{}{"phase": "evil", "case": sp, "outcome": outcome})
		}
		if len(fs) > 0 {
			reportFindings(caseSpec{Phase: "evil", Evil: &sp}, fs)
		}
		return nil
	}, nil)
	finishPhase("attacker", done, int64(len(specs)), t0)
}

func phaseTransport() {
	t0 := time.Now()
	specs := tSpecs()
	rspecs := reflectSpecs()
	n := int64(len(specs) + len(rspecs))
	done := pool(n, nil, func(_ interface{}, i int64) interface{} {
		r.Add("evaluations", 1)
		if int(i) < len(specs) {
			sp := specs[i]
			fs, outcome := runTransport(sp)
			tick()
			if outcome == "accepted" {
				r.Add("transport_accepted", 1)
			} else {
				r.Add("transport_rejected", 1)
			}
			nontrivial.add("transport|" + sp.class() + "|" + outcome)
			r.Distinct("transport_outcomes", outcome)
			if sp.mustAccept() && r.WantSample() {
				r.Sample(map[string]interface{}{"phase": "transport", "case": sp, "outcome": outcome})
			}
			if len(fs) > 0 {
				reportFindings(caseSpec{Phase: "transport", Transport: &sp}, fs)
			}
			return nil
		}
		sp := rspecs[int(i)-len(specs)]
		fs, outcome := runReflect(sp)
		tick()
		if outcome != "accepted" && outcome != "no-key-exchange" {
			r.Add("transport_reflection_rejected", 1)
		}
		nontrivial.add(fmt.Sprintf("reflect|%s|%s|%v|%s", sp.Dial, sp.NodeInfo, sp.Lower, outcome))
		r.Distinct("transport_reflection_outcomes", outcome)
		if len(fs) > 0 {
			reportFindings(caseSpec{Phase: "transport-reflection", Reflect: &sp}, fs)
		}
		return nil
	}, nil)
	finishPhase("transport", done, n, t0)
}

func phaseMitm() {
	t0 := time.Now()
	ms := allManips(r.Thorough())
	n := int64(len(ms) * 2)
	done := pool(n, nil, func(_ interface{}, i int64) interface{} {
		m := ms[i/2]
		least := i%2 == 0
		fs, outcome, o, sessions := mitmOnce(m, &least)
		r.Add("evaluations", int64(sessions))
		r.Add("mitm_sessions", int64(sessions))
		if o.orderKnown {
			if o.victimLeast {
				r.Add("mitm_sessions_victim_eph_lower", 1)
			} else {
				r.Add("mitm_sessions_victim_eph_higher", 1)
			}
		}
		changed := string(o.fed) != string(o.orig)
		oc := outcome
		if m.touchesHandshake() && oc == "hs-rejected" {
			if errClass(o.hsV.err) == "stall" {
				r.Add("mitm_stalled", 1)
			} else {
				r.Add("mitm_detected_as_error", 1)
			}
		}
		switch {
		case len(oc) > 9 && oc[:9] == "detected:":
			r.Add("mitm_detected_as_error", 1)
		case oc == "cut:stall" || oc == "short-garbage-tail:stall":
			r.Add("mitm_stalled", 1)
		case oc == "delivered-all":
			r.Add("mitm_clean_delivered_all", 1)
		}
		if changed || m.Kind == "none" {
			nontrivial.add(fmt.Sprintf("mitm|%s|%v|%s", m.class(0), o.victimLeast, oc))
		}
		r.Distinct("mitm_classes", m.class(0))
		if (m.Kind == "dup" || m.Kind == "flip") && m.K == 3 && least && r.WantSample() {
			r.Sample(map[string]interface{}{"phase": "mitm", "manipulation": m, "victim_eph_is_lower": o.victimLeast, "outcome": oc,
				"bytes_delivered": len(o.delivered), "bytes_written": len(o.plaintext), "end_error": fmt.Sprint(o.endErr)})
		}
		if len(fs) > 0 {
			mm := m
			reportFindings(caseSpec{Phase: "mitm", Mitm: &mm, VictimLeast: &least}, fs)
		}
		return nil
	}, nil)
	finishPhase("man-in-the-middle", done, n, t0)

	// every bit of every byte of one data frame and of the auth frame's successor, amortised on one
	// session: a rejected frame leaves the receiver's state unchanged, so the same receiver can be
	// offered every single-bit variant of the frame that is due; in the end the genuine frame must
	// still be accepted (otherwise this sub-phase is vacuous and says so).
	t1 := time.Now()
	var doneBits int64
	for rep := 0; rep < 2 && !r.Expired(); rep++ {
		pr, hf := newCleanPair(keys[0], keys[1])
		r.Add("evaluations", 1)
		if pr == nil {
			reportFindings(caseSpec{Phase: "mitm", Mitm: &manip{Kind: "none"}}, hf)
			break
		}
		pr.syncMode(true)
		w, rd, in := pr.ends(rep)
		in.mu.Lock()
		in.hold = true
		in.mu.Unlock()
		payload := pattern(40+rep, 777)
		w.Write(payload)
		frame := in.unitsCopy()[0]
		buf := make([]byte, 2048)
		bad := false
		for pos := 0; pos < len(frame) && !bad; pos++ {
			for bit := 0; bit < 8; bit++ {
				x := append([]byte(nil), frame...)
				x[pos] ^= 1 << uint(bit)
				in.feed(x)
				n, err := rd.Read(buf)
				doneBits++
				if n != 0 || err == nil || errClass(err) == "stall" {
					m := manip{Kind: "flip", K: 2, Pos: pos, Bit: bit}
					reportFindings(caseSpec{Phase: "mitm", Mitm: &m}, []finding{{sig(m.class(0), "altered-bytes-delivered"), fmt.Sprintf("frame with bit %d of byte %d flipped: Read returned n=%d err=%v", bit, pos, n, err)}})
					bad = true
					break
				}
			}
		}
		tick()
		r.Add("evaluations", doneBits)
		r.Add("mitm_single_bit_flips_all_positions", doneBits)
		if !bad {
			in.feed(frame)
			n, err := rd.Read(buf)
			if err != nil || string(buf[:n]) != string(payload) {
				r.Add("info_receiver_does_not_accept_the_genuine_frame_after_rejections", 1)
			} else {
				r.Add("mitm_genuine_frame_accepted_after_all_flips", 1)
			}
		}
		pr.close()
		doneBits = 0
	}
	r.Require(r.Get("mitm_genuine_frame_accepted_after_all_flips") > 0 || r.Get("info_receiver_does_not_accept_the_genuine_frame_after_rejections") > 0 || r.NumViolations() > 0 || r.Expired(), "all-positions bit-flip sub-phase did not run")
	fmt.Fprintf(os.Stderr, "c20: phase %-22s %6.1fs\n", "all-bit-flips", time.Since(t1).Seconds())
}

func phaseStreams() {
	kw, kr, ml, freeIters := 4, 4, 2, 60
	if r.Thorough() {
		kw, kr, ml, freeIters = 6, 5, 3, 400
	}
	// ---- chunkings
	t0 := time.Now()
	ws, rs := writeSeqs(kw), readSeqs(kr)
	wsS, rsS := writeSeqs(2), readSeqs(2)
	type cs struct {
		w, rd     []int
		short     int
		alt       bool
		dirn      int
		nontrivia bool
	}
	nFull := int64(len(ws)) * int64(len(rs)) * 4
	nShort := int64(len(wsS)) * int64(len(rsS)) * 2 * 4
	n := nFull + nShort
	decode := func(i int64) chunkSpec {
		if i < nFull {
			v := i % 4
			i /= 4
			return chunkSpec{Writes: ws[i%int64(len(ws))], Reads: rs[i/int64(len(ws))], Alternate: v&1 == 1, Dir: int(v >> 1)}
		}
		i -= nFull
		v := i % 4
		i /= 4
		short := []int{1, 1000}[i%2]
		i /= 2
		return chunkSpec{Writes: wsS[i%int64(len(wsS))], Reads: rsS[i/int64(len(wsS))], ShortRead: short, Alternate: v&1 == 1, Dir: int(v >> 1)}
	}
	r.Set("chunk_write_sequences", len(ws))
	r.Set("chunk_read_sequences", len(rs))
	done := pool(n, freshPair, func(ctx interface{}, i int64) interface{} {
		pr, _ := ctx.(*pair)
		if pr == nil {
			if ctx = freshPair(); ctx == nil {
				return nil
			}
			pr = ctx.(*pair)
		}
		c := decode(i)
		fs, key := runChunk(pr, c, int(i%251))
		tick()
		r.Add("evaluations", 1)
		r.Add("chunk_cases", 1)
		if key != "" && len(framesOf(c.Writes)) >= 2 {
			nontrivial.add("chunk|" + key)
		}
		if i == 12345 || i == nFull+7 {
			r.Sample(map[string]interface{}{"phase": "chunk", "case": c, "observed": key})
		}
		if len(fs) > 0 {
			reportFindings(caseSpec{Phase: "chunk", Chunk: &c}, fs)
			pr.close()
			return freshPair()
		}
		return pr
	}, closePair)
	finishPhase("chunkings", done, n, t0)

	// ---- merges of two writers' Write calls
	t0 = time.Now()
	lists := sizeLists(ml)
	var specs []mergeSpec
	for _, a := range lists {
		for _, b := range lists {
			for _, mg := range binaryMerges(len(a), len(b)) {
				specs = append(specs, mergeSpec{W1: a, W2: b, Merge: mg})
			}
		}
	}
	n = int64(len(specs)) * 2
	done = pool(n, freshPair, func(ctx interface{}, i int64) interface{} {
		pr, _ := ctx.(*pair)
		if pr == nil {
			if ctx = freshPair(); ctx == nil {
				return nil
			}
			pr = ctx.(*pair)
		}
		m := specs[i/2]
		m.Dir = int(i % 2)
		fs, key := runMerge(pr, m)
		tick()
		r.Add("evaluations", 1)
		r.Add("merge_cases", 1)
		if key != "" {
			nontrivial.add("merge|" + key)
		}
		if i == 777 {
			r.Sample(map[string]interface{}{"phase": "merge", "case": m, "observed": key})
		}
		if len(fs) > 0 {
			reportFindings(caseSpec{Phase: "merge", Merge: &m}, fs)
			pr.close()
			return freshPair()
		}
		return pr
	}, closePair)
	finishPhase("two-writer-merges", done, n, t0)

	// ---- controlled interleavings of two writers (the premise of the merges, explored)
	phaseInterleave()

	// ---- free-running writers (the -race pass runs this body alone)
	t0 = time.Now()
	done = runFreePhase(freeIters)
	finishPhase("free-running-writers", done, int64(freeIters), t0)
}

// replayIlv re-executes one recorded schedule on a fresh pair.
func replayIlv(sp ilvSpec) (fs []finding) {
	pr, hf := newCleanPair(keys[0], keys[1])
	if pr == nil {
		return hf
	}
	defer pr.close()
	pr.syncMode(false)
	ex := &explore.Explorer{Bound: 1 << 20, NoPrune: true}
	ex.Body = func(c *explore.Ctx) { fs, _ = runIlv(pr, sp, c) }
	ex.OnPanic = func(_ *explore.Ctx, p interface{}) {
		fs = []finding{{sig("two-writers:controlled-interleaving", "replay-diverged"), fmt.Sprint(p)}}
	}
	ex.RunOne(sp.Choices)
	return append(hf, fs...)
}

// replayFlushStop re-executes one recorded FlushStop schedule.
func replayFlushStop(sp fsSpec) (fs []finding) {
	ex := &explore.Explorer{Bound: 1 << 20, NoPrune: true}
	ex.Body = func(c *explore.Ctx) { fs, _ = runFlushStop(sp, c) }
	ex.OnPanic = func(_ *explore.Ctx, p interface{}) {
		fs = []finding{{sig("mconn:flushstop-while-send-routine-busy", "replay-diverged"), fmt.Sprint(p)}}
	}
	ex.RunOne(sp.Choices)
	return fs
}

// phaseFlushStop: FlushStop against a busy send routine, explored (flushstop.go). One P, as phaseInterleave.
func phaseFlushStop() {
	t0 := time.Now()
	old := runtime.GOMAXPROCS(1)
	defer runtime.GOMAXPROCS(old)
	// quick: every script, messages of 300 and maxPayload+1 bytes (1 and 2 packets) in every combination, on one
	// channel and alternating between two, plus a first message of 66000 bytes (buffer overflow inside a batch);
	// all schedules with <= 2 preemptions. thorough: sizes {1, 300, maxPayload+1}, <= 5 preemptions.
	bound := 2
	specs := fsScenarios([]int{300, maxPayload() + 1}, true)
	if r.Thorough() {
		bound = 5
		specs = fsScenarios([]int{1, 300, maxPayload() + 1}, true)
	}
	var violating int64
	done := poolN(1, int64(len(specs)), nil, func(_ interface{}, i int64) interface{} {
		sp := specs[i]
		sp.Bound = bound
		outcomes := map[string]bool{}
		ex := &explore.Explorer{Bound: bound, Workers: 1, NoPrune: true, Deadline: deadlineAt}
		ex.OnPanic = func(_ *explore.Ctx, p interface{}) {
			fmt.Printf("MACHINERY-ERROR property=C20 controlled FlushStop exploration %v %s: %v\n", sp.Msgs, sp.Script, p)
			os.Exit(3)
		}
		ex.Body = func(c *explore.Ctx) {
			if atomic.LoadInt64(&violating) > ilvMaxViolating {
				return
			}
			fs, obs := runFlushStop(sp, c)
			tick()
			run := obs.run
			r.Add("evaluations", 1)
			r.Add("fs_executions", 1)
			r.Add("fs_choice_points", int64(obs.points))
			r.Add("fs_goroutine_state_snapshots", int64(run.polls))
			r.Max("fs_max_preemptions_in_one_execution", int64(run.preemptions))
			if run.startedWhileSendRoutineParked {
				r.Add("fs_executions_flushstop_called_while_send_routine_parked_at_a_gate", 1)
			}
			r.Add("fs_send_routine_parked_before_a_flush", int64(run.parks[fsR][fsAtFlush]))
			r.Add("fs_send_routine_parked_inside_conn_write", int64(run.parks[fsR][fsInConnWrite]))
			r.Add("fs_flushstop_parked_before_its_flush", int64(run.parks[fsF][fsAtFlush]))
			r.Add("fs_flushstop_parked_inside_conn_write", int64(run.parks[fsF][fsInConnWrite]))
			r.Add("fs_quiescent_points_with_a_goroutine_waiting_in_the_code_under_test", int64(run.blockedSeen))
			if run.bothParked {
				r.Add("fs_executions_with_both_goroutines_parked_at_once", 1)
			}
			for i, a := range obs.accepted {
				if a {
					r.Add("fs_messages_accepted", 1)
				} else {
					r.Add("fs_messages_refused_by_trysend", 1)
				}
				_ = i
			}
			c.Outcome = obs.wire + "|" + obs.got
			outcomes[obs.wire] = true
			r.Distinct("fs_distinct_wire_orders", obs.wire)
			nontrivial.add(fmt.Sprint("fs|", sp.Msgs, sp.Script, "|", obs.wire, "|", obs.got))
			if len(fs) > 0 {
				sc := sp
				sc.Choices = c.Choices()
				reportFindings(caseSpec{Phase: "flushstop", FlushStop: &sc}, fs)
				if atomic.AddInt64(&violating, 1) == ilvMaxViolating+1 {
					r.NotExhaustive(fmt.Sprintf("controlled FlushStop exploration stopped after %d violating executions", ilvMaxViolating))
				}
			}
		}
		st := ex.Explore()
		r.Add("fs_scenarios", 1)
		if len(outcomes) > 1 {
			r.Add("fs_scenarios_with_more_than_one_wire_order", 1)
		}
		if !st.Completed {
			r.NotExhaustive(fmt.Sprintf("controlled FlushStop exploration of %s stopped at the deadline", sp.Script))
		}
		if i == 7 || i == int64(len(specs))-1 {
			r.Sample(map[string]interface{}{"phase": "flushstop", "case": sp, "executions": st.Executions, "distinct_wire_orders": len(outcomes)})
		}
		return nil
	}, nil)
	finishPhase("flushstop-vs-send-routine", done, int64(len(specs)), t0)
}

var ilvViolating int64

const ilvMaxViolating = 300

func phaseInterleave() {
	t0 := time.Now()
	// The goroutine-state snapshot stops the world; with many Ps on a shared machine that costs
	// milliseconds per snapshot (measured: 9 ms with 16 workers), with a single P ~50 microseconds, and the
	// whole phase is 8x faster on one P with one worker than on sixteen. So this phase runs on one P.
	procs := 1
	if v, err := strconv.Atoi(os.Getenv("VERIF_C20_ILV_PROCS")); err == nil && v > 0 {
		procs = v
	}
	old := runtime.GOMAXPROCS(procs)
	defer runtime.GOMAXPROCS(old)
	// quick:    all size lists of <= 2 calls per writer plus all lists of 3 calls over {1, 3000}, <= 2 preemptions
	// thorough: all lists of <= 2 calls with <= 3 preemptions in both directions; all lists of <= 3 calls with at
	//           most 5 calls in total (and 3+3 calls over {1, 3000}) with <= 2 preemptions.
	// (One P, see above: ~0.3 ms per execution.)
	var specs []ilvSpec
	seen := map[string]bool{}
	addAll := func(list []ilvSpec, bound int, bothDirs bool) {
		for _, sp := range list {
			k := fmt.Sprint(sp.W, bound)
			if seen[k] {
				continue
			}
			seen[k] = true
			sp.Bound = bound
			sp.Dir = len(specs) % 2
			specs = append(specs, sp)
			if bothDirs {
				sp.Dir = 1 - sp.Dir
				specs = append(specs, sp)
			}
		}
	}
	if r.Thorough() {
		addAll(ilvScenarios(2, ilvSizes), 3, true)
		var upTo5 []ilvSpec
		for _, sp := range ilvScenarios(3, ilvSizes) {
			if len(sp.W[0])+len(sp.W[1]) <= 5 {
				upTo5 = append(upTo5, sp)
			}
		}
		addAll(upTo5, 2, false)
		addAll(ilvScenarios(3, []int{1, 3000}), 2, false)
	} else {
		addAll(ilvScenarios(2, ilvSizes), 2, false)
		addAll(ilvScenarios(3, []int{1, 3000}), 2, false)
	}
	done := poolN(procs, int64(len(specs)), freshPair, func(ctx interface{}, i int64) interface{} {
		pr, _ := ctx.(*pair)
		sp := specs[i]
		orders := map[string]bool{}
		ex := &explore.Explorer{Bound: sp.Bound, Workers: 1, NoPrune: true, Deadline: deadlineAt}
		ex.OnPanic = func(_ *explore.Ctx, p interface{}) {
			fmt.Printf("MACHINERY-ERROR property=C20 controlled interleaving %v: %v\n", sp.W, p)
			os.Exit(3)
		}
		ex.Body = func(c *explore.Ctx) {
			if atomic.LoadInt64(&ilvViolating) > ilvMaxViolating {
				return
			}
			if pr == nil {
				x := freshPair()
				if x == nil {
					return
				}
				pr = x.(*pair)
			}
			fs, obs := runIlv(pr, sp, c)
			tick()
			r.Add("evaluations", 1)
			r.Add("ilv_executions", 1)
			r.Add("ilv_choice_points", int64(obs.points))
			run := obs.run
			r.Add("ilv_goroutine_state_snapshots", int64(run.polls))
			r.Add("ilv_goroutine_state_snapshot_ns", run.pollNs)
			r.Add("ilv_quiescent_points_with_a_writer_blocked_in_the_code_under_test", int64(run.blockedSeen))
			r.Max("ilv_max_preemptions_in_one_execution", int64(run.preemptions))
			if run.startedWhileOtherInside > 0 {
				r.Add("ilv_executions_with_a_writer_started_while_the_other_was_parked_inside_write", 1)
			}
			c.Outcome = obs.order
			if obs.order != "" {
				orders[obs.order] = true
				r.Distinct("ilv_distinct_payload_orders", obs.order)
				r.Distinct("ilv_distinct_wire_orders", obs.wire)
				nontrivial.add("ilv|" + ilvKey(sp) + "|" + obs.wire + "|" + obs.order)
			}
			if len(fs) > 0 {
				sc := sp
				sc.Choices = c.Choices()
				reportFindings(caseSpec{Phase: "interleave", Ilv: &sc}, fs)
				if atomic.AddInt64(&ilvViolating, 1) == ilvMaxViolating+1 {
					r.NotExhaustive(fmt.Sprintf("controlled interleavings stopped after %d violating executions (every one costs a new handshake; the smallest schedules come first)", ilvMaxViolating))
				}
			}
			if !obs.pairHealthy {
				pr.close()
				pr = nil
			}
		}
		st := ex.Explore()
		r.Add("ilv_scenarios", 1)
		if len(orders) > 1 {
			r.Add("ilv_scenarios_with_more_than_one_payload_order", 1)
		}
		if !st.Completed {
			r.NotExhaustive(fmt.Sprintf("controlled interleavings of %v stopped at the deadline", sp.W))
		}
		if i == 3 || i == int64(len(specs))-1 {
			r.Sample(map[string]interface{}{"phase": "interleave", "case": sp, "executions": st.Executions, "distinct_payload_orders": len(orders)})
		}
		if pr == nil {
			return nil
		}
		return pr
	}, closePair)
	finishPhase("two-writer-interleavings", done, int64(len(specs)), t0)
}

func runFreePhase(iters int) int64 {
	var orders sync.Map
	done := pool(int64(iters), freshPair, func(ctx interface{}, i int64) interface{} {
		pr, _ := ctx.(*pair)
		if pr == nil {
			if ctx = freshPair(); ctx == nil {
				return nil
			}
			pr = ctx.(*pair)
		}
		f := freeSpec{Iter: int(i)}
		fs, key := runFree(pr, f)
		tick()
		r.Add("evaluations", 1)
		r.Add("free_running_iterations", 1)
		if key != "" {
			orders.Store(key, true)
			nontrivial.add("free|" + key)
			r.Distinct("free_running_orders", key)
		}
		if i == 0 {
			r.Sample(map[string]interface{}{"phase": "free-running", "iteration": i, "observed_payload_order_by_writer": key})
		}
		if len(fs) > 0 {
			reportFindings(caseSpec{Phase: "free", Free: &f}, fs)
			pr.close()
			return freshPair()
		}
		return pr
	}, closePair)
	r.Add("free_running_distinct_orders", int64(r.DistinctCount("free_running_orders")))
	return done
}

func racePassMain() {
	iters := 300
	if r.Thorough() {
		iters = 3000
	}
	t0 := time.Now()
	done := runFreePhase(iters)
	finishPhase("free-running-writers", done, int64(iters), t0)
	t0 = time.Now()
	fsIters := iters / 2
	done = pool(int64(fsIters), nil, func(_ interface{}, i int64) interface{} {
		fs, got := runFlushStopFree(int(i))
		tick()
		r.Add("evaluations", 1)
		r.Add("flushstop_free_running_iterations", 1)
		nontrivial.add("fsfree|" + fmt.Sprint(i%64) + "|" + got)
		if len(fs) > 0 {
			reportFindings(caseSpec{Phase: "flushstop-free", Free: &freeSpec{Iter: int(i)}}, fs)
		}
		return nil
	}, nil)
	finishPhase("flushstop-free-running", done, int64(fsIters), t0)
	r.Set("race_detector_compiled_in", raceEnabled)
	if !raceEnabled {
		fmt.Fprintln(os.Stderr, "c20: note: C20_RACE_PASS=1 without VERIF_RACE=1: the race detector is not compiled in, only stream integrity is checked")
	}
	r.Set("rule", fmt.Sprintf("race pass: %d free-running iterations on real SecretConnection pairs, per iteration and direction two real writer goroutines issuing 7 tagged Write calls each (sizes from %v) and one reader goroutine with varying buffer sizes; oracle: the bytes read are a concatenation of whole intact Write payloads, every writer's payloads in its own order, all delivered, no error; the race detector (exit 66) judges the rest; plus %d free-running iterations of FlushStop() against a send routine stalled inside conn.Write of a throttled flush with two more accepted messages queued (message sizes varied), the link opened after a number of yields; oracle: the wire decodes to exactly the accepted messages, once, intact, in per-channel order; the detector judges the accesses to the shared buffered writer and send state. distinct_nontrivial = distinct observed payload orders / delivered streams", iters, freeSizes, iters/2))
	r.Set("distinct_nontrivial", nontrivial.count())
	r.Assume("the process is built with -race (VERIF_RACE=1); see race_detector_compiled_in")
	r.Exhaustive(true)
	r.Require(r.Get("free_running_iterations") > 0, "no iteration ran")
	r.Finish()
}

// ---------------------------------------------------------------------------------------------

func phaseMconn() {
	mp := maxPayload()
	const capC1, capC2 = 5000, 2500
	sizes8 := []int{0, 1, mp - 1, mp, mp + 1, 3 * mp, capC1, capC1 + 1}
	km := 3
	opLen := 5
	if r.Thorough() {
		km, opLen = 4, 7
	}
	// packets sent between two enqueues, flush policies (0: at the end, 1: after every send step, 2: after every enqueue)
	gapsFor := func(m int) ([]string, int) {
		switch {
		case !r.Thorough():
			return []string{"", "S", "D"}, 2
		case m <= 3:
			return []string{"", "S", "SS", "D"}, 3
		}
		return []string{"", "D"}, 2
	}
	record := func(s mconnSpec, fs []finding, obs *mconnObs, stack bool) {
		tick()
		r.Add("evaluations", 1)
		r.Add("mconn_cases", 1)
		if stack {
			r.Add("mconn_stack_cases", 1)
		}
		r.Add("mconn_messages_delivered", int64(len(obs.got)))
		r.Add("mconn_packets", int64(obs.pkts))
		switch obs.recvClass {
		case "capacity":
			r.Add("mconn_refused_capacity", 1)
		case "unknown-channel":
			r.Add("mconn_refused_unknown_channel", 1)
		}
		names := ""
		for i, m := range s.Msgs {
			nm := sizeName(m.Size, s.capacity())
			if i < len(obs.accepted) && obs.accepted[i] {
				r.Distinct("mconn_size_classes_sent", nm)
			} else if i < len(obs.accepted) {
				r.Add("mconn_trysend_refused", 1)
				nm += "(refused)"
			}
			names += fmt.Sprintf("%d:%s,", m.Ch, nm)
		}
		if len(obs.accepted) > 0 || obs.pkts > 0 {
			nontrivial.add(fmt.Sprintf("mconn|%s|%s|%d|%s%d|%v|%s", names, s.Ops, s.ReadChunk, s.Raw, s.Param, stack, obs.outcome))
		}
		if len(fs) > 0 {
			ss := s
			reportFindings(caseSpec{Phase: "mconn", Mconn: &ss}, fs)
		}
	}

	// ---- hand-made packet streams
	t0 := time.Now()
	var raws []mconnSpec
	for _, rc := range []int{0, 7} {
		for i := range unknownIDs {
			raws = append(raws, mconnSpec{Raw: "unknown-channel", Param: i, Capacity: capC1, ReadChunk: rc})
		}
		for i := range aliasIDs {
			raws = append(raws, mconnSpec{Raw: "alias-channel", Param: i, Capacity: capC1, ReadChunk: rc})
		}
		for i := 0; i < 3; i++ {
			raws = append(raws, mconnSpec{Raw: "never-ending", Param: i, Capacity: capC1, ReadChunk: rc})
			raws = append(raws, mconnSpec{Raw: "oversize-packet", Param: []int{0, 1, 100}[i], Capacity: capC1, ReadChunk: rc})
		}
		for _, capx := range []int{capC1, 4 * mp, mp} {
			raws = append(raws, mconnSpec{Raw: "exact-capacity-then-empty-eof", Capacity: capx, ReadChunk: rc}, mconnSpec{Raw: "exact-capacity-then-one-byte", Capacity: capx, ReadChunk: rc})
		}
		raws = append(raws, mconnSpec{Raw: "ping-pong-interleaved", Capacity: capC1, ReadChunk: rc}, mconnSpec{Raw: "empty-packet", Capacity: capC1, ReadChunk: rc})
		for i := range mergeCache[[2]int{3, 2}] {
			raws = append(raws, mconnSpec{Raw: "merge2", Param: i, Capacity: capC1, ReadChunk: rc})
		}
	}
	for i := range mergeCache[[2]int{3, 3}] {
		raws = append(raws, mconnSpec{Raw: "merge3", Param: i, Capacity: capC1})
	}
	// the repository's default capacity, through the real sender
	raws = append(raws, mconnSpec{Msgs: []mMsg{{chanIDs[0], 22020096}}, Ops: "E", QueueCap: 1},
		mconnSpec{Msgs: []mMsg{{chanIDs[1], 22020097}, {chanIDs[0], 10}}, Ops: "EE", QueueCap: 1})
	done := pool(int64(len(raws)), nil, func(_ interface{}, i int64) interface{} {
		s := raws[i]
		fs, obs := runMconn(s)
		switch s.Raw {
		case "alias-channel":
			r.Add("info_alias_channel_"+classHead(obs.recvClass)+fmt.Sprintf("_delivered_%d", len(obs.got)), 1)
		case "oversize-packet":
			r.Add("info_oversize_packet_"+classHead(obs.recvClass), 1)
		case "empty-packet":
			r.Add("info_empty_packet_"+classHead(obs.recvClass), 1)
		}
		record(s, fs, &obs, false)
		if (s.Raw == "never-ending" || s.Raw == "merge2") && s.Param == 1 && s.ReadChunk == 0 {
			r.Sample(map[string]interface{}{"phase": "mconn", "case": s, "outcome": obs.outcome, "receiver_error": fmt.Sprint(obs.recvErr)})
		}
		return nil
	}, nil)
	finishPhase("mconn-packet-streams", done, int64(len(raws)), t0)

	// ---- every op sequence over the reduced alphabet
	t0 = time.Now()
	redSizes := []int{1, mp + 1, capC2 + 1}
	nTok := len(chanIDs)*len(redSizes) + 2
	if r.Thorough() {
		nTok++ // the send routine's batch step
	}
	var seqs [][]byte
	var rec func(cur []byte, enq int)
	rec = func(cur []byte, enq int) {
		if len(cur) > 0 {
			seqs = append(seqs, append([]byte(nil), cur...))
		}
		if len(cur) == opLen {
			return
		}
		for t := 0; t < nTok; t++ {
			e := enq
			if t < 9 {
				if enq == 3 {
					continue
				}
				e++
			}
			rec(append(cur, byte(t)), e)
		}
	}
	rec(nil, 0)
	toSpec := func(seq []byte, rc int) mconnSpec {
		s := mconnSpec{QueueCap: 1, Capacity: capC2, ReadChunk: rc}
		ops := make([]byte, 0, len(seq))
		for _, t := range seq {
			switch {
			case t < 9:
				s.Msgs = append(s.Msgs, mMsg{chanIDs[int(t)/3], redSizes[int(t)%3]})
				ops = append(ops, 'E')
			case t == 9:
				ops = append(ops, 'S')
			case t == 10:
				ops = append(ops, 'F')
			default:
				ops = append(ops, 'B')
			}
		}
		s.Ops = string(ops)
		return s
	}
	n := int64(len(seqs)) * 2
	done = pool(n, nil, func(_ interface{}, i int64) interface{} {
		s := toSpec(seqs[i/2], []int{-1, 7}[i%2])
		fs, obs := runMconn(s)
		record(s, fs, &obs, false)
		if i == 2*4321 {
			r.Sample(map[string]interface{}{"phase": "mconn", "case": s, "outcome": obs.outcome, "trysend_results": obs.accepted})
		}
		return nil
	}, nil)
	finishPhase("mconn-op-sequences", done, n, t0)

	nTokens := int64(len(chanIDs) * len(sizes8))
	// ---- the full stack: MConnection over real SecretConnections
	t0 = time.Now()
	var stack []mconnSpec
	for a := 0; a < int(nTokens); a++ {
		ma := mMsg{chanIDs[a/len(sizes8)], sizes8[a%len(sizes8)]}
		stack = append(stack, mconnSpec{Msgs: []mMsg{ma}, Ops: "E", QueueCap: 4, Capacity: capC1, Stack: true})
		for b := 0; b < int(nTokens); b++ {
			mb := mMsg{chanIDs[b/len(sizes8)], sizes8[b%len(sizes8)]}
			stack = append(stack, mconnSpec{Msgs: []mMsg{ma, mb}, Ops: "EE", QueueCap: 4, Capacity: capC1, Stack: true})
			if r.Thorough() {
				stack = append(stack, mconnSpec{Msgs: []mMsg{ma, mb}, Ops: "ESFE", QueueCap: 4, Capacity: capC1, Stack: true})
			}
		}
	}
	done = pool(int64(len(stack)), nil, func(_ interface{}, i int64) interface{} {
		s := stack[i]
		fs, obs := runMconn(s)
		r.Add("clean_handshakes", 1)
		record(s, fs, &obs, true)
		return nil
	}, nil)
	finishPhase("mconn-full-stack", done, int64(len(stack)), t0)
	// ---- all message vectors x coarse schedules
	t0 = time.Now()
	type blk struct {
		m     int
		count int64
	}
	var blocks []blk
	var total int64
	for m := 1; m <= km; m++ {
		gaps, nPol := gapsFor(m)
		c := int64(nPol)
		for i := 0; i < m; i++ {
			c *= nTokens
		}
		for i := 0; i < m-1; i++ {
			c *= int64(len(gaps))
		}
		blocks = append(blocks, blk{m, c})
		total += c
	}
	vecSpec := func(i int64) mconnSpec {
		m := 0
		for _, b := range blocks {
			if i < b.count {
				m = b.m
				break
			}
			i -= b.count
		}
		gaps, nPol := gapsFor(m)
		pol := int(i % int64(nPol))
		i /= int64(nPol)
		s := mconnSpec{QueueCap: 4, Capacity: capC1}
		var g []int
		for k := 0; k < m-1; k++ {
			g = append(g, int(i%int64(len(gaps))))
			i /= int64(len(gaps))
		}
		for k := 0; k < m; k++ {
			t := int(i % nTokens)
			i /= nTokens
			s.Msgs = append(s.Msgs, mMsg{chanIDs[t/len(sizes8)], sizes8[t%len(sizes8)]})
		}
		ops := ""
		for k := 0; k < m; k++ {
			ops += "E"
			if pol == 2 {
				ops += "F"
			}
			if k < m-1 {
				for _, c := range gaps[g[k]] {
					ops += string(c)
					if pol == 1 {
						ops += "F"
					}
				}
			}
		}
		s.Ops = ops
		return s
	}
	done = pool(total, nil, func(_ interface{}, i int64) interface{} {
		s := vecSpec(i)
		fs, obs := runMconn(s)
		record(s, fs, &obs, false)
		if i == total/2 {
			r.Sample(map[string]interface{}{"phase": "mconn", "case": s, "outcome": obs.outcome})
		}
		return nil
	}, nil)
	finishPhase("mconn-message-vectors", done, total, t0)

	_ = sort.Ints
}
