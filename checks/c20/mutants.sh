#!/bin/bash
# Demonstrates that the C20 check can fail: applies every /verif/mutants/c20-*.patch (or those whose
# name contains $1) to a scratch worktree of /repo, runs the repository's own tests of the touched
# package, then the quick tier against the scratch tree. Prints one markdown table row per mutant.
# (The empty-message finding F1 of the first round is fixed in /repo since 8608b2c; its signature is still
# filtered out below so that the script also works on older trees.)
# lib/p2p has two tests that fail at baseline (TestNetAddressProperties, TestNetAddressReachabilityTo);
# "pass" for that package means: no other test fails.
export GOFLAGS=-mod=mod GOPROXY=off GOSUMDB=off GOTOOLCHAIN=local
cd /verif
WT=/tmp/wt-c20-$$
KEY=$(python3 -c "import hashlib,sys; print(hashlib.sha1(sys.argv[1].encode()).hexdigest()[:10])" "$WT")
KNOWN='input-class=mconn:send:size=0|oracle=packetisation'
for p in mutants/c20-*${1:-}*.patch; do
  name=$(basename "$p" .patch)
  git -C /repo worktree add --detach "$WT" HEAD >/dev/null 2>&1 || { echo "| $name | worktree failed | | |"; continue; }
  if ! git -C "$WT" apply "/verif/$p"; then echo "| $name | patch does not apply | | |"; git -C /repo worktree remove --force "$WT"; continue; fi
  pkgs=$(git -C "$WT" diff --name-only | xargs -n1 dirname | sort -u | sed 's|^|./|')
  tests=pass
  ( cd "$WT" && go build ./lib/p2p/... >/dev/null 2>&1 ) || tests="DOES-NOT-COMPILE"
  if [ "$tests" = pass ]; then
    out=$(cd "$WT" && go test -vet=off -count=1 $pkgs 2>&1)
    failed=$(echo "$out" | grep -E '^--- FAIL' | grep -v -E 'TestNetAddressProperties|TestNetAddressReachabilityTo' | sed 's/--- FAIL: //; s/ (.*//' | tr '\n' ' ')
    echo "$out" | grep -q -E '^panic:' && failed="$failed(panic)"
    [ -n "$failed" ] && tests="FAIL ($failed)"
  fi
  log=/tmp/c20-mut-$name.log
  case "$name" in c20-race-*)
    # concurrency mutants are for the separate free-running pass under the race detector (exit 66 = data race reported)
    VERIF_REPO="$WT" VERIF_RACE=1 VERIF_NOEVIDENCE=1 C20_RACE_PASS=1 timeout 1800 ./run.sh C20 quick > "$log" 2>&1
    rc=$?
    races=$(grep -c 'WARNING: DATA RACE' "$log")
    caught=NO; { [ "$rc" = 66 ] || [ "$rc" = 1 ]; } && caught=yes
    echo "| $name | $tests | race pass: $caught (exit $rc, $races data-race reports) | (VERIF_RACE=1 C20_RACE_PASS=1) |"
    git -C /repo worktree remove --force "$WT"
    continue;;
  esac
  VERIF_REPO="$WT" VERIF_NOEVIDENCE=1 timeout 900 ./run.sh C20 quick > "$log" 2>&1
  rc=$?
  new=$(grep '^violation: ' "$log" | grep -vcF "$KNOWN")
  sigs=$(grep '^violation: ' "$log" | grep -vF "$KNOWN" | sed 's/^violation: C20|//; s/: .*//' | head -4 | sed 's/|/ \/ /g' | tr '\n' ';')
  caught=NO
  [ "$rc" = 1 ] && [ "$new" -gt 0 ] && caught=yes
  echo "| $name | $tests | $caught (exit $rc, $new new signatures) | $sigs |"
  git -C /repo worktree remove --force "$WT"
done
git -C /repo worktree prune
rm -rf "/verif/.build/$KEY"
