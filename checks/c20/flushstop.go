package main

// Controlled exploration of MConnection.FlushStop against a BUSY send routine.
//
// A real, Start()ed MConnection sends over the checker's pipe. Its send routine (a goroutine of the code
// under test) and a goroutine calling FlushStop() can be parked at two kinds of gates the checker owns:
// inside the pipe at the start of every conn.Write (a flush of the buffered writer, or the buffer
// overflowing in the middle of a batch of packets), and in the logger the connection was given, at the
// "Flush" message every flush() starts with (i.e. after the decision to flush, before the buffered writer
// is touched). The flush throttle is configured so long that the real timer never fires; "the throttle
// timer fires" is an operation of the checker (in-package accessor: a value on flushTimer.Ch), enabled
// only while the send routine sits idle in its select. The environment script of a scenario is a
// sequence of S (TrySend the next message), T (throttle timer fires) and a final X (FlushStop() is
// called); at every quiescent point verif/mc/explore chooses between the next script operation and
// releasing a parked goroutine (default: whoever moved last; moving someone else although the last one
// could continue costs 1). Quiescent = send routine and FlushStop goroutine are each gone, parked at a
// gate, or waiting inside the code under test (select of the send routine, FlushStop waiting for the send
// routine to exit), read off the goroutines' scheduler states exactly as in interleave.go.
// The send routine's goroutine id is found in the same dump (stack contains sendRoutine, created by the
// explorer's goroutine).
//
// Oracle (FlushStop's contract and the property): the bytes that reached the wire decode - by the
// reference receiver AND by a real started receiving MConnection - to exactly the messages TrySend
// accepted before FlushStop was called, once each, intact, in per-channel order; no deadlock, no panic.

import (
	"bytes"
	"fmt"
	"runtime"
	"strconv"
	"strings"
	"sync"
	"time"

	"github.com/kardiachain/go-kardia/lib/log"
	"github.com/kardiachain/go-kardia/lib/p2p/conn"

	"verif/mc/explore"
)

type fsSpec struct {
	Msgs    []mMsg `json:"msgs"`
	Script  string `json:"script"` // S: TrySend next message; T: the flush throttle timer fires; X: FlushStop()
	Bound   int    `json:"preemption_bound"`
	Choices []int  `json:"choices,omitempty"`
}

const (
	fsRunning = iota
	fsAtFlush
	fsInConnWrite
	fsBlocked
	fsDone
	fsAbsent // not started yet
)

var fsStName = []string{"run", "at-flush", "in-conn-write", "blocked", "done", "absent"}

type fsActor struct {
	goid   uint64
	st     int
	resume chan struct{}
	g      gstate
}

const (
	fsR = 0 // the send routine
	fsF = 1 // the goroutine calling FlushStop
	fsH = 2 // the environment script
)

type fsRun struct {
	mu    sync.Mutex
	act   [2]fsActor
	abort bool
	snap  ilvRun

	polls, blockedSeen, preemptions int
	parks                           [2][8]int // how often each goroutine was parked at each kind of gate
	startedWhileSendRoutineParked   bool
	bothParked                      bool
	wire                            []byte
}

// gate parks the calling goroutine if it is one of the two tracked ones.
func (s *fsRun) gate(kind int) {
	id := curGoid()
	s.mu.Lock()
	who := -1
	for i := range s.act {
		if s.act[i].st != fsAbsent && s.act[i].goid == id {
			who = i
		}
	}
	if who < 0 || s.abort {
		s.mu.Unlock()
		return
	}
	s.act[who].st = kind
	s.parks[who][kind]++
	ch := s.act[who].resume
	s.mu.Unlock()
	<-ch
	if kind == fsInConnWrite {
		s.mu.Lock()
		s.wire = append(s.wire, "RF"[who])
		s.mu.Unlock()
	}
}

// fsLogger is the logger handed to the sending connection: silent, but flush() announces itself here.
type fsLogger struct {
	log.Logger
	s *fsRun
}

func (l *fsLogger) Debug(msg string, _ ...interface{}) {
	if msg == "Flush" {
		l.s.gate(fsAtFlush)
	}
}
func (l *fsLogger) New(...interface{}) log.Logger  { return l }
func (l *fsLogger) With(...interface{}) log.Logger { return l }

// settle waits for quiescence and classifies the two tracked goroutines.
func (s *fsRun) settle() {
	spins, next := 0, 4
	for {
		var ids []uint64
		var who []int
		s.mu.Lock()
		for i := range s.act {
			if s.act[i].st == fsBlocked {
				s.act[i].st = fsRunning // whatever moved last may have woken it
			}
			if s.act[i].st == fsRunning {
				ids = append(ids, s.act[i].goid)
				who = append(who, i)
			}
		}
		s.mu.Unlock()
		if len(ids) == 0 {
			return
		}
		spins++
		if spins < next {
			runtime.Gosched()
			continue
		}
		s.polls++
		st := s.snap.snapshot(ids)
		quiet := true
		for _, g := range st {
			if g.found && !g.blockedInCodeUnderTest() {
				quiet = false
			}
		}
		if quiet {
			s.mu.Lock()
			stable := true
			for k, i := range who {
				if s.act[i].st != fsRunning { // parked or finished in the meantime: look again
					stable = false
					continue
				}
				if !st[k].found {
					s.act[i].st = fsDone
				} else {
					s.act[i].st = fsBlocked
					s.act[i].g = st[k]
					s.blockedSeen++
				}
			}
			s.mu.Unlock()
			if stable {
				return
			}
		}
		if next < 1024 {
			next *= 2
		}
		spins = 0
		runtime.Gosched()
	}
}

func (a *fsActor) parked() bool { return a.st == fsAtFlush || a.st == fsInConnWrite }

func (a *fsActor) idleInSelect() bool {
	return a.st == fsBlocked && a.g.status == "select" && strings.Contains(a.g.caller, "sendRoutine")
}

// findSendRoutine returns the id of the goroutine running sendRoutine that was created by goroutine parent.
func (s *fsRun) findSendRoutine(parent uint64) uint64 {
	dump := s.snap.dumpAll()
	mark := []byte("in goroutine " + strconv.FormatUint(parent, 10) + "\n")
	for _, blk := range bytes.Split(dump, []byte("\n\n")) {
		if !bytes.HasPrefix(blk, []byte("goroutine ")) || !bytes.Contains(blk, []byte("(*MConnection).sendRoutine")) {
			continue
		}
		if !bytes.Contains(append(blk, '\n'), mark) {
			continue
		}
		f := bytes.Fields(blk)
		id, _ := strconv.ParseUint(string(f[1]), 10, 64)
		return id
	}
	return 0
}

func fsConfig() conn.MConnConfig {
	cfg := mconnConfig()
	cfg.FlushThrottle = time.Hour // the checker fires the throttled flush itself
	cfg.PingInterval = 2 * time.Hour
	cfg.PongTimeout = time.Hour
	return cfg
}

type fsObs struct {
	run      *fsRun
	points   int
	accepted []bool
	got      string // what the peer's receiver delivered, e.g. "1:300 1:300"
	wire     string
}

func runFlushStop(sp fsSpec, c *explore.Ctx) (fs []finding, obs fsObs) {
	const class = "mconn:flushstop-while-send-routine-busy"
	add := func(oracle, what string) { fs = append(fs, finding{sig(class, oracle), what}) }
	s := &fsRun{}
	obs.run = s
	for i := range s.act {
		s.act[i].st = fsAbsent
		s.act[i].resume = make(chan struct{})
	}
	p := newPipe()
	defer p.closeAll()
	p.ab.hold = true // what reaches the wire is recorded, in the order the writes were released
	p.ab.gate = func() { s.gate(fsInConnWrite) }
	spec := mconnSpec{QueueCap: 4}
	var sendErr interface{}
	S := conn.NewMConnectionWithConfig(p.a, descs(spec), func(byte, []byte) {}, func(e interface{}) { sendErr = e }, fsConfig())
	S.SetLogger(&fsLogger{Logger: log.NewNopLogger(), s: s})
	if err := S.Start(); err != nil {
		add("start-failed", err.Error())
		return
	}
	// (a goroutine that has not run yet shows only its wrapper frame: let it reach its select first)
	rid := uint64(0)
	for i := 0; i < 100000 && rid == 0; i++ {
		runtime.Gosched()
		rid = s.findSendRoutine(curGoid())
	}
	if rid == 0 {
		panic("harness: the send routine's goroutine was not found in the dump of goroutine " + fmt.Sprint(curGoid()) + ":\n" + string(s.snap.dumpAll()))
	}
	s.mu.Lock()
	s.act[fsR].goid, s.act[fsR].st = rid, fsRunning
	s.mu.Unlock()

	var fpanic string
	startF := func() {
		ready := make(chan struct{})
		go func() {
			s.mu.Lock()
			s.act[fsF].goid, s.act[fsF].st = curGoid(), fsRunning
			s.mu.Unlock()
			close(ready)
			defer func() {
				if pv := recover(); pv != nil {
					fpanic = fmt.Sprint(pv)
				}
				s.mu.Lock()
				s.act[fsF].st = fsDone
				s.mu.Unlock()
			}()
			S.FlushStop()
		}()
		<-ready
	}

	pos, next, cur := 0, 0, fsH
	deadlock := false
	for {
		s.settle()
		s.mu.Lock()
		R, F := s.act[fsR], s.act[fsF]
		s.mu.Unlock()
		// a throttle-timer event with no send routine to take it is dropped (the real timer gives up too)
		for pos < len(sp.Script) && sp.Script[pos] == 'T' && R.st == fsDone {
			pos++
		}
		hEnabled := pos < len(sp.Script) && (sp.Script[pos] != 'T' || R.idleInSelect())
		if R.parked() && F.parked() {
			s.bothParked = true
		}
		var alts []int
		for _, a := range []int{cur, fsH, fsR, fsF} {
			dup := false
			for _, b := range alts {
				dup = dup || a == b
			}
			if dup {
				continue
			}
			switch a {
			case fsH:
				if hEnabled {
					alts = append(alts, a)
				}
			case fsR:
				if R.parked() {
					alts = append(alts, a)
				}
			case fsF:
				if F.parked() {
					alts = append(alts, a)
				}
			}
		}
		lab := fmt.Sprintf("%d|%d|R:%s|F:%s", cur, pos, fsStName[R.st], fsStName[F.st])
		if len(alts) == 0 {
			fdone := F.st == fsDone
			if pos == len(sp.Script) && fdone && (R.st == fsDone || R.st == fsBlocked) {
				break // finished (a send routine that lingers in its select after FlushStop returned is not judged)
			}
			deadlock = true
			add("deadlock", "nobody can move: "+lab+" "+R.g.status+"@"+R.g.caller+" / "+F.g.status+"@"+F.g.caller)
			break
		}
		pick := alts[0]
		if len(alts) > 1 {
			costs := make([]int, len(alts))
			if alts[0] == cur {
				for i := 1; i < len(costs); i++ {
					costs[i] = 1
				}
			}
			k := c.Choose(costs, lab)
			obs.points++
			pick = alts[k]
			if costs[k] > 0 {
				s.preemptions++
			}
		}
		cur = pick
		switch pick {
		case fsH:
			op := sp.Script[pos]
			pos++
			switch op {
			case 'S':
				m := sp.Msgs[next]
				obs.accepted = append(obs.accepted, S.TrySend(m.Ch, msgBytes(next, m)))
				next++
			case 'T':
				S.VerifC20FireFlushThrottle()
			case 'X':
				if R.parked() {
					s.startedWhileSendRoutineParked = true
				}
				startF()
			}
		default:
			s.mu.Lock()
			s.act[pick].st = fsRunning
			ch := s.act[pick].resume
			s.mu.Unlock()
			ch <- struct{}{}
		}
	}
	// wind down: nothing parks any more; whoever is parked runs on
	s.mu.Lock()
	s.abort = true
	for i := range s.act {
		if s.act[i].parked() {
			s.act[i].st = fsRunning
			close(s.act[i].resume)
		}
	}
	s.mu.Unlock()
	chunks := p.ab.unitsCopy()
	p.closeAll()
	S.Stop()
	if !deadlock {
		// let the two goroutines disappear before the next execution looks at the dump
		for i := 0; i < 5000; i++ {
			st := s.snap.snapshot([]uint64{rid})
			s.mu.Lock()
			fgone := s.act[fsF].st == fsDone || s.act[fsF].st == fsAbsent
			s.mu.Unlock()
			if !st[0].found && fgone {
				break
			}
			runtime.Gosched()
		}
	}
	obs.wire = string(s.wire)
	if fpanic != "" {
		add("panic", "FlushStop panicked: "+fpanic)
	}
	if sendErr != nil && strings.Contains(fmt.Sprint(sendErr), "recovered from panic") {
		add("panic", fmt.Sprint(sendErr))
	}
	if deadlock {
		return
	}
	// what the peer makes of the bytes on the wire
	rs := mconnSpec{QueueCap: 4, chunks: chunks}
	if chunks == nil {
		rs.chunks = [][]byte{}
	}
	rfs, robs := runMconn(rs)
	fs = append(fs, rfs...)
	want := map[byte][][]byte{}
	for i, m := range sp.Msgs {
		if i < len(obs.accepted) && obs.accepted[i] {
			want[m.Ch] = append(want[m.Ch], msgBytes(i, m))
		}
	}
	var gots []string
	for _, d := range robs.ref.delivered {
		gots = append(gots, fmt.Sprintf("%d:%d", d.ch, len(d.data)))
	}
	obs.got = strings.Join(gots, " ")
	if robs.ref.end != "eof" {
		add("corrupted-packet-stream", fmt.Sprintf("the bytes on the wire are not a well-formed packet stream (%s); delivered before that: [%s]; writes reached the wire in order %s", robs.ref.end, obs.got, obs.wire))
	}
	got := perChannel(robs.ref.delivered)
	for _, ch := range chanIDs {
		w, g := want[ch], got[ch]
		ok := len(w) == len(g)
		for i := 0; ok && i < len(w); i++ {
			ok = bytes.Equal(w[i], g[i])
		}
		if !ok {
			var ws []string
			for _, m := range w {
				ws = append(ws, fmt.Sprint(len(m)))
			}
			add("exactly-once-intact-in-order", fmt.Sprintf("channel %d: TrySend accepted messages of %v bytes before FlushStop, the peer's stream delivers [%s] (writes reached the wire in order %s)", ch, ws, obs.got, obs.wire))
			break
		}
	}
	return
}

// fsScenarios: scripts over {S,T} with 1..3 S, at most 2 T, no leading T, no TT, then X; messages from sizes
// on the channel patterns "all on channel 1" and "alternating channels 1,2".
func fsScenarios(sizes []int, big bool) []fsSpec {
	var scripts []string
	var rec func(cur string, ns, nt int)
	rec = func(cur string, ns, nt int) {
		if ns >= 1 {
			scripts = append(scripts, cur+"X")
		}
		if len(cur) == 5 {
			return
		}
		if ns < 3 {
			rec(cur+"S", ns+1, nt)
		}
		if nt < 2 && ns >= 1 && !strings.HasSuffix(cur, "T") {
			rec(cur+"T", ns, nt+1)
		}
	}
	rec("", 0, 0)
	var out []fsSpec
	for _, sc := range scripts {
		n := strings.Count(sc, "S")
		var vecs [][]int
		var gen func(cur []int)
		gen = func(cur []int) {
			if len(cur) == n {
				vecs = append(vecs, append([]int(nil), cur...))
				return
			}
			for _, z := range sizes {
				gen(append(cur, z))
			}
		}
		gen(nil)
		for _, v := range vecs {
			for pat := 0; pat < 2; pat++ {
				if pat == 1 && n == 1 {
					continue
				}
				sp := fsSpec{Script: sc}
				for i, z := range v {
					ch := chanIDs[0]
					if pat == 1 && i%2 == 1 {
						ch = chanIDs[1]
					}
					sp.Msgs = append(sp.Msgs, mMsg{ch, z})
				}
				out = append(out, sp)
			}
		}
		if big {
			// a first message larger than the 64 KiB write buffer: the buffer overflows (conn.Write) in the
			// middle of a batch of packets
			sp := fsSpec{Script: sc}
			for i := 0; i < n; i++ {
				z := 300
				if i == 0 {
					z = 66000
				}
				sp.Msgs = append(sp.Msgs, mMsg{chanIDs[0], z})
			}
			out = append(out, sp)
		}
	}
	return out
}

// ---------------------------------------------------------------------------------------------
// free-running body for the -race pass: FlushStop against a send routine stalled in a slow write.
// No gates of the explorer, no clock: the first conn.Write after arming blocks on a channel; the
// checker sends two more messages, calls FlushStop in a goroutine, yields a number of times (an
// opportunity, not an oracle) and opens the link. In the unchanged code FlushStop waits for the send
// routine to exit (doneSendRoutine), which orders all accesses to the shared buffered writer and the
// channels' send state; the race detector is the judge, the decoded stream the second oracle.

type slowGate struct {
	mu      sync.Mutex
	armed   bool
	entered chan struct{}
	open    chan struct{}
}

func (g *slowGate) gate() {
	g.mu.Lock()
	first := g.armed
	g.armed = false
	g.mu.Unlock()
	if first {
		close(g.entered)
	}
	<-g.open
}

func runFlushStopFree(iter int) (fs []finding, got string) {
	const class = "mconn:flushstop-free-running-against-stalled-write"
	add := func(oracle, what string) { fs = append(fs, finding{sig(class, oracle), what}) }
	p := newPipe()
	defer p.closeAll()
	g := &slowGate{armed: true, entered: make(chan struct{}), open: make(chan struct{})}
	p.ab.hold = true
	p.ab.gate = g.gate
	spec := mconnSpec{QueueCap: 4}
	S := conn.NewMConnectionWithConfig(p.a, descs(spec), func(byte, []byte) {}, func(interface{}) {}, fsConfig())
	S.SetLogger(log.NewNopLogger())
	if err := S.Start(); err != nil {
		add("start-failed", err.Error())
		return
	}
	sizes := []int{300, maxPayload() + 1, 1, 3 * maxPayload()}
	msgs := []mMsg{{chanIDs[0], sizes[iter%4]}, {chanIDs[iter%2], sizes[(iter/4)%4]}, {chanIDs[0], sizes[(iter/16)%4]}}
	var accepted []bool
	accepted = append(accepted, S.TrySend(msgs[0].Ch, msgBytes(0, msgs[0])))
	// wait (yielding) until the send routine has packetised the first message, then let the throttle fire
	for i := 0; ; i++ {
		st := S.Status()
		pending := 0
		for _, c := range st.Channels {
			pending += c.SendQueueSize
		}
		if pending == 0 {
			break
		}
		runtime.Gosched()
	}
	S.VerifC20FireFlushThrottle()
	<-g.entered // the send routine is inside conn.Write of its flush and stays there
	accepted = append(accepted, S.TrySend(msgs[1].Ch, msgBytes(1, msgs[1])))
	accepted = append(accepted, S.TrySend(msgs[2].Ch, msgBytes(2, msgs[2])))
	fdone := make(chan struct{})
	go func() {
		defer close(fdone)
		S.FlushStop()
	}()
	for i := 0; i < 200+iter%50; i++ {
		runtime.Gosched()
	}
	close(g.open)
	<-fdone
	chunks := p.ab.unitsCopy()
	p.closeAll()
	rs := mconnSpec{QueueCap: 4, chunks: chunks}
	if chunks == nil {
		rs.chunks = [][]byte{}
	}
	rfs, robs := runMconn(rs)
	fs = append(fs, rfs...)
	want := map[byte][][]byte{}
	for i, m := range msgs {
		if accepted[i] {
			want[m.Ch] = append(want[m.Ch], msgBytes(i, m))
		}
	}
	var gots []string
	for _, d := range robs.ref.delivered {
		gots = append(gots, fmt.Sprintf("%d:%d", d.ch, len(d.data)))
	}
	got = strings.Join(gots, " ")
	if robs.ref.end != "eof" {
		add("corrupted-packet-stream", fmt.Sprintf("the bytes on the wire are not a well-formed packet stream (%s); delivered before that: [%s]", robs.ref.end, got))
	}
	have := perChannel(robs.ref.delivered)
	for _, ch := range chanIDs {
		w, h := want[ch], have[ch]
		ok := len(w) == len(h)
		for i := 0; ok && i < len(w); i++ {
			ok = bytes.Equal(w[i], h[i])
		}
		if !ok {
			add("exactly-once-intact-in-order", fmt.Sprintf("channel %d: %d messages accepted before FlushStop, the peer's stream delivers [%s]", ch, len(w), got))
			break
		}
	}
	return
}
