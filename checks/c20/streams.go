package main

// Byte-stream integrity over a pair of real SecretConnections: every chunking of a stream into Write
// sizes and Read buffer sizes, all merges of two writers' Write calls (driven from one goroutine), and
// the free-running scenario with two real writer goroutines per side that re-establishes the premise
// "a whole Write call is the atomic unit" (also the body of the separate -race pass).

import (
	"bytes"
	"encoding/binary"
	"fmt"
	"io"
	"runtime"
	"sync"

	"github.com/kardiachain/go-kardia/lib/p2p/conn"
)

const streamLen = 2500

var sizeSet = []int{1, 1023, 1024, 1025, 2048}

type chunkSpec struct {
	Writes    []int `json:"writes"`     // Write sizes (the last one completes the stream)
	Reads     []int `json:"reads"`      // Read buffer sizes, then 4096 until done
	ShortRead int   `json:"short_read"` // >0: the transport hands out at most this many bytes per Read
	Alternate bool  `json:"alternate"`  // true: read everything available after each Write; false: all Writes first
	Dir       int   `json:"dir"`        // 0: A writes, B reads; 1: the other way
}

// writeSeqs: all sequences over sizeSet of length <= k, each completed to exactly streamLen bytes
// (a size is cut when it would overshoot, the rest goes out in one final Write), de-duplicated.
func writeSeqs(k int) [][]int {
	seen := map[string]bool{}
	var out [][]int
	var rec func(cur []int, sum, depth int)
	emit := func(cur []int, sum int) {
		w := append([]int(nil), cur...)
		if sum < streamLen {
			w = append(w, streamLen-sum)
		}
		key := fmt.Sprint(w)
		if !seen[key] {
			seen[key] = true
			out = append(out, w)
		}
	}
	rec = func(cur []int, sum, depth int) {
		emit(cur, sum)
		if depth == k || sum >= streamLen {
			return
		}
		for _, s := range sizeSet {
			n := s
			if sum+n > streamLen {
				n = streamLen - sum
			}
			rec(append(cur, n), sum+n, depth+1)
		}
	}
	rec(nil, 0, 0)
	return out
}

func readSeqs(k int) [][]int {
	var out [][]int
	var rec func(cur []int, depth int)
	rec = func(cur []int, depth int) {
		out = append(out, append([]int(nil), cur...))
		if depth == k {
			return
		}
		for _, s := range sizeSet {
			rec(append(cur, s), depth+1)
		}
	}
	rec(nil, 0)
	return out
}

func framesOf(writes []int) (fr []int) {
	for _, w := range writes {
		for w > 0 {
			n := w
			if n > dataMax {
				n = dataMax
			}
			fr = append(fr, n)
			w -= n
		}
	}
	return
}

func (pr *pair) ends(dirn int) (w, rd *conn.SecretConnection, in *dir) {
	if dirn == 0 {
		return pr.a, pr.b, pr.p.ab
	}
	return pr.b, pr.a, pr.p.ba
}

// runChunk executes one chunking on a pair in synchronous mode. key describes what happened.
func runChunk(pr *pair, c chunkSpec, seed int) (fs []finding, key string) {
	w, rd, in := pr.ends(c.Dir)
	in.setMaxRead(c.ShortRead)
	defer in.setMaxRead(0)
	class := "chunking"
	if c.ShortRead > 0 {
		class = "chunking:transport-short-reads"
	}
	add := func(oracle, what string) { fs = append(fs, finding{sig(class, oracle), what}) }
	defer func() {
		if p := recover(); p != nil {
			add("panic", fmt.Sprint(p))
		}
	}()
	data := pattern(seed, streamLen)
	var got []byte
	var rets []int
	buf := make([]byte, 4096)
	ri, written := 0, 0
	readOutstanding := func() bool {
		for guard := 0; len(got) < written; guard++ {
			sz := 4096
			if ri < len(c.Reads) {
				sz = c.Reads[ri]
			}
			ri++
			n, err := rd.Read(buf[:sz])
			got = append(got, buf[:n]...)
			if len(rets) < 8 {
				rets = append(rets, n)
			}
			if err != nil {
				add("read-error-on-clean-stream:"+errClass(err), fmt.Sprintf("Read failed after %d of %d written bytes: %v", len(got), written, err))
				return false
			}
			if guard > 2*streamLen+16 {
				add("missing-bytes", fmt.Sprintf("Read keeps returning nothing: %d of %d written bytes delivered", len(got), written))
				return false
			}
		}
		return true
	}
	for _, ws := range c.Writes {
		n, err := w.Write(data[written : written+ws])
		if err != nil || n != ws {
			add("write-failed", fmt.Sprintf("Write(%d bytes) returned n=%d err=%v", ws, n, err))
			return fs, ""
		}
		written += ws
		if c.Alternate && !readOutstanding() {
			return fs, ""
		}
	}
	if !readOutstanding() {
		return fs, ""
	}
	if !bytes.Equal(got, data[:written]) {
		add("bytes-differ", fmt.Sprintf("bytes read differ from bytes written (first difference at %d of %d)", commonPrefix(got, data[:written]), written))
		return fs, ""
	}
	// exactly once: nothing more may come
	n, err := rd.Read(buf[:1024])
	if n != 0 || errClass(err) != "stall" {
		add("extra-bytes-delivered", fmt.Sprintf("after the whole stream was read a further Read returned n=%d err=%v", n, err))
		return fs, ""
	}
	return fs, fmt.Sprint(framesOf(c.Writes), rets, c.ShortRead > 0)
}

// ---------------------------------------------------------------------------------------------
// tagged payloads: [writer 1][seq 2][len 2] pattern...

const tagLen = 5

func tagged(writer, seq, n int) []byte {
	if n < tagLen {
		n = tagLen
	}
	b := make([]byte, n)
	b[0] = byte(writer)
	binary.BigEndian.PutUint16(b[1:], uint16(seq))
	binary.BigEndian.PutUint16(b[3:], uint16(n))
	copy(b[tagLen:], pattern(writer*131+seq, n-tagLen))
	return b
}

type tagRec struct{ writer, seq, n int }

// parseTagged: the stream must be a concatenation of whole, intact payloads.
func parseTagged(s []byte) (recs []tagRec, err error) {
	off := 0
	for off < len(s) {
		if len(s)-off < tagLen {
			return recs, fmt.Errorf("%d stray bytes at offset %d", len(s)-off, off)
		}
		wr, seq, n := int(s[off]), int(binary.BigEndian.Uint16(s[off+1:])), int(binary.BigEndian.Uint16(s[off+3:]))
		if n < tagLen || off+n > len(s) {
			return recs, fmt.Errorf("payload header at offset %d announces %d bytes, %d left", off, n, len(s)-off)
		}
		if !bytes.Equal(s[off:off+n], tagged(wr, seq, n)) {
			return recs, fmt.Errorf("payload (writer %d, #%d, %d bytes) at offset %d is not intact: another Write's bytes are mixed in or bytes were altered", wr, seq, n, off)
		}
		recs = append(recs, tagRec{wr, seq, n})
		off += n
	}
	return recs, nil
}

type mergeSpec struct {
	W1    []int `json:"w1"`
	W2    []int `json:"w2"`
	Merge []int `json:"merge"` // which writer issues the next Write call
	Dir   int   `json:"dir"`
}

var mergeSizes = []int{tagLen, 1023, 1024, 1025, 2048}

func sizeLists(k int) [][]int {
	var out [][]int
	var rec func(cur []int)
	rec = func(cur []int) {
		if len(cur) > 0 {
			out = append(out, append([]int(nil), cur...))
		}
		if len(cur) == k {
			return
		}
		for _, s := range mergeSizes {
			rec(append(cur, s))
		}
	}
	rec(nil)
	return out
}

// binaryMerges: all interleavings of a calls of writer 0 and b calls of writer 1.
func binaryMerges(a, b int) [][]int {
	var out [][]int
	var cur []int
	var rec func(x, y int)
	rec = func(x, y int) {
		if x == 0 && y == 0 {
			out = append(out, append([]int(nil), cur...))
			return
		}
		if x > 0 {
			cur = append(cur, 0)
			rec(x-1, y)
			cur = cur[:len(cur)-1]
		}
		if y > 0 {
			cur = append(cur, 1)
			rec(x, y-1)
			cur = cur[:len(cur)-1]
		}
	}
	rec(a, b)
	return out
}

// runMerge: two writers on one side, their Write calls issued in the given merged order from one
// goroutine; the reader must get the payloads whole and in exactly that order.
func runMerge(pr *pair, m mergeSpec) (fs []finding, key string) {
	w, rd, _ := pr.ends(m.Dir)
	add := func(oracle, what string) {
		fs = append(fs, finding{sig("two-writers:merged-write-calls", oracle), what})
	}
	defer func() {
		if p := recover(); p != nil {
			add("panic", fmt.Sprint(p))
		}
	}()
	var want []byte
	idx := [2]int{}
	lists := [2][]int{m.W1, m.W2}
	for _, who := range m.Merge {
		if idx[who] >= len(lists[who]) {
			continue
		}
		pl := tagged(who+1, idx[who], lists[who][idx[who]])
		idx[who]++
		if n, err := w.Write(pl); err != nil || n != len(pl) {
			add("write-failed", fmt.Sprintf("Write(%d bytes) returned n=%d err=%v", len(pl), n, err))
			return fs, ""
		}
		want = append(want, pl...)
	}
	got, end := readAll(rd, 1500)
	if errClass(end) != "stall" {
		add("read-error-on-clean-stream:"+errClass(end), fmt.Sprintf("Read failed after %d of %d bytes: %v", len(got), len(want), end))
		return fs, ""
	}
	if !bytes.Equal(got, want) {
		add("bytes-differ", fmt.Sprintf("bytes read differ from the merged Write calls (first difference at %d of %d)", commonPrefix(got, want), len(want)))
		return fs, ""
	}
	return fs, fmt.Sprint(framesOf(m.W1), framesOf(m.W2), m.Merge)
}

// ---------------------------------------------------------------------------------------------
// free-running: two real writer goroutines per side, one reader per side, both directions at once

type freeSpec struct {
	Iter int `json:"iter"`
}

var freeSizes = []int{tagLen, 1023, 1024, 1025, 2048, 3000, 17}

// runFree uses the pair in BLOCKING mode. The readers end exactly: once all four writers are joined
// the checker declares both feeds complete, and a reader that then finds its inbox empty stalls.
func runFree(pr *pair, f freeSpec) (fs []finding, key string) {
	add := func(oracle, what string) {
		fs = append(fs, finding{sig("two-writers:free-running-goroutines", oracle), what})
	}
	for _, d := range []*dir{pr.p.ab, pr.p.ba} {
		d.mu.Lock()
		d.feedDone = false
		d.record = false
		d.mu.Unlock()
	}
	const perWriter = 7
	var wg, rg sync.WaitGroup
	type rres struct {
		got []byte
		end error
	}
	var res [2]rres
	var werr [4]error
	for dirn := 0; dirn < 2; dirn++ {
		w, rd, _ := pr.ends(dirn)
		rg.Add(1)
		go func(dirn int, rd io.Reader) {
			defer rg.Done()
			defer func() {
				if p := recover(); p != nil {
					res[dirn].end = fmt.Errorf("recovered from panic: %v", p)
				}
			}()
			bufs := []int{700, 1024, 4096, 1}
			buf := make([]byte, 4096)
			for i := 0; ; i++ {
				n, err := rd.Read(buf[:bufs[(i+f.Iter)%len(bufs)]])
				res[dirn].got = append(res[dirn].got, buf[:n]...)
				if err != nil {
					res[dirn].end = err
					return
				}
			}
		}(dirn, rd)
		for wr := 0; wr < 2; wr++ {
			wg.Add(1)
			go func(slot, writer int, w io.Writer) {
				defer wg.Done()
				defer func() {
					if p := recover(); p != nil {
						werr[slot] = fmt.Errorf("recovered from panic: %v", p)
					}
				}()
				for s := 0; s < perWriter; s++ {
					pl := tagged(writer, s, freeSizes[(s*3+writer+f.Iter)%len(freeSizes)])
					if n, err := w.Write(pl); err != nil || n != len(pl) {
						werr[slot] = fmt.Errorf("Write(%d bytes) returned n=%d err=%v", len(pl), n, err)
						return
					}
					runtime.Gosched() // invite the other writer in (any schedule must satisfy the oracle)
				}
			}(dirn*2+wr, dirn*2+wr+1, w)
		}
	}
	wg.Wait()
	pr.p.ab.setFeedDone(true)
	pr.p.ba.setFeedDone(true)
	rg.Wait()
	for _, e := range werr {
		if e != nil {
			add("write-failed", e.Error())
		}
	}
	orders := ""
	for dirn := 0; dirn < 2; dirn++ {
		if isPanicErr(res[dirn].end) {
			add("panic", res[dirn].end.Error())
			continue
		}
		if errClass(res[dirn].end) != "stall" {
			add("read-error-on-clean-stream:"+errClass(res[dirn].end), fmt.Sprintf("direction %d: Read failed after %d bytes: %v", dirn, len(res[dirn].got), res[dirn].end))
			continue
		}
		recs, err := parseTagged(res[dirn].got)
		if err != nil {
			add("write-calls-not-atomic", fmt.Sprintf("direction %d: %v", dirn, err))
			continue
		}
		nextSeq := map[int]int{}
		for _, rc := range recs {
			if rc.writer != dirn*2+1 && rc.writer != dirn*2+2 {
				add("bytes-differ", fmt.Sprintf("direction %d delivered a payload of writer %d", dirn, rc.writer))
			} else if rc.seq != nextSeq[rc.writer] {
				add("writer-order-not-preserved", fmt.Sprintf("direction %d: writer %d payload #%d arrived when #%d was due", dirn, rc.writer, rc.seq, nextSeq[rc.writer]))
			}
			nextSeq[rc.writer] = rc.seq + 1
			orders += fmt.Sprint(rc.writer)
		}
		if len(recs) != 2*perWriter {
			add("missing-bytes", fmt.Sprintf("direction %d: %d of %d payloads delivered", dirn, len(recs), 2*perWriter))
		}
		orders += "|"
	}
	if len(fs) > 0 {
		return fs, ""
	}
	return nil, orders
}
