package main

// The in-memory duplex pipe the checker owns. Every byte between two endpoints passes through it; the
// checker decides what is delivered, when, and in which pieces, and it can tell exactly when a reader
// would block for ever ("connection stalls"): a direction whose feeder has declared that nothing more
// will ever be fed answers a Read on an empty inbox with errStall instead of blocking. No wall clock
// is involved anywhere.

import (
	"errors"
	"io"
	"net"
	"sync"
	"time"
)

// errStall is what a reader gets when it would block for ever: its inbox is empty and the checker,
// which is the only party that can put bytes into the inbox, has declared the feed complete. It
// stands for "the peer's deadline expires / the connection stalls".
var errStall = errors.New("verif: connection stalls (reader would block for ever, nothing in flight)")

// dir is one direction of a pipe.
type dir struct {
	mu   sync.Mutex
	cond *sync.Cond

	// writer side
	gate   func()   // when set, called at the start of every Write before anything is recorded (interleave.go)
	hold   bool     // true: written units are only recorded, the checker feeds the inbox itself
	record bool     // keep a copy of every written unit in units
	units  [][]byte // every Write call, in order (one unit per call)
	writes int64    // number of Write calls
	wbytes int64    // bytes written
	wdone  bool     // the writing party has finished (set by the checker)
	closed bool

	// reader side
	inbox    [][]byte // chunks still to be read (chunk boundaries limit a single Read)
	off      int      // offset into inbox[0]
	feedDone bool     // nothing more will ever be fed
	eofAtEnd bool     // at the end of a completed feed answer io.EOF instead of errStall
	maxRead  int      // >0: no Read returns more than this many bytes (short reads)
	consumed int64    // bytes handed to the reader so far
	reads    int64
}

func newDir() *dir {
	d := &dir{record: true}
	d.cond = sync.NewCond(&d.mu)
	return d
}

func (d *dir) write(p []byte) (int, error) {
	d.mu.Lock()
	g := d.gate
	d.mu.Unlock()
	if g != nil {
		g() // controlled interleavings: the calling goroutine is parked here with its frame in hand
	}
	d.mu.Lock()
	defer d.mu.Unlock()
	if d.closed {
		return 0, io.ErrClosedPipe
	}
	c := append([]byte(nil), p...)
	d.writes++
	d.wbytes += int64(len(c))
	if d.record {
		d.units = append(d.units, c)
	}
	if !d.hold && len(c) > 0 {
		d.inbox = append(d.inbox, c)
	}
	d.cond.Broadcast()
	return len(p), nil
}

// feed appends bytes to the inbox as one chunk.
func (d *dir) feed(p []byte) {
	if len(p) == 0 {
		return
	}
	d.mu.Lock()
	d.inbox = append(d.inbox, append([]byte(nil), p...))
	d.cond.Broadcast()
	d.mu.Unlock()
}

func (d *dir) setFeedDone(v bool) {
	d.mu.Lock()
	d.feedDone = v
	d.cond.Broadcast()
	d.mu.Unlock()
}

func (d *dir) setWriterDone() {
	d.mu.Lock()
	d.wdone = true
	d.cond.Broadcast()
	d.mu.Unlock()
}

func (d *dir) close() {
	d.mu.Lock()
	d.closed = true
	d.cond.Broadcast()
	d.mu.Unlock()
}

func (d *dir) read(p []byte) (int, error) {
	d.mu.Lock()
	defer d.mu.Unlock()
	d.reads++
	if len(p) == 0 {
		return 0, nil
	}
	for {
		if len(d.inbox) > 0 {
			c := d.inbox[0][d.off:]
			n := len(c)
			if n > len(p) {
				n = len(p)
			}
			if d.maxRead > 0 && n > d.maxRead {
				n = d.maxRead
			}
			copy(p, c[:n])
			d.off += n
			if d.off == len(d.inbox[0]) {
				d.inbox[0] = nil
				d.inbox = d.inbox[1:]
				d.off = 0
			}
			d.consumed += int64(n)
			return n, nil
		}
		if d.closed {
			return 0, io.EOF
		}
		if d.feedDone {
			if d.eofAtEnd {
				return 0, io.EOF
			}
			return 0, errStall
		}
		d.cond.Wait()
	}
}

// waitUnits blocks until at least n units were written, or the writer is done / the pipe closed.
// (Used only where the code under test writes unconditionally, see sessions.go.)
func (d *dir) waitUnits(n int) bool {
	d.mu.Lock()
	defer d.mu.Unlock()
	for len(d.units) < n && !d.wdone && !d.closed {
		d.cond.Wait()
	}
	return len(d.units) >= n
}

func (d *dir) unitsCopy() [][]byte {
	d.mu.Lock()
	defer d.mu.Unlock()
	out := make([][]byte, len(d.units))
	copy(out, d.units)
	return out
}

func (d *dir) numUnits() int {
	d.mu.Lock()
	defer d.mu.Unlock()
	return len(d.units)
}

func (d *dir) consumedBytes() int64 {
	d.mu.Lock()
	defer d.mu.Unlock()
	return d.consumed
}

func (d *dir) pending() int {
	d.mu.Lock()
	defer d.mu.Unlock()
	n := -d.off
	for _, c := range d.inbox {
		n += len(c)
	}
	return n
}

func (d *dir) setMaxRead(n int) {
	d.mu.Lock()
	d.maxRead = n
	d.mu.Unlock()
}

// end is one endpoint of a pipe; it implements net.Conn.
type end struct {
	in, out *dir
	local   *net.TCPAddr
	remote  *net.TCPAddr
}

func (e *end) Read(p []byte) (int, error)  { return e.in.read(p) }
func (e *end) Write(p []byte) (int, error) { return e.out.write(p) }
func (e *end) Close() error {
	e.in.close()
	e.out.close()
	return nil
}
func (e *end) LocalAddr() net.Addr  { return e.local }
func (e *end) RemoteAddr() net.Addr { return e.remote }

// Deadlines are owned by the checker (errStall), never by the wall clock.
func (e *end) SetDeadline(time.Time) error      { return nil }
func (e *end) SetReadDeadline(time.Time) error  { return nil }
func (e *end) SetWriteDeadline(time.Time) error { return nil }

var _ net.Conn = (*end)(nil)

// pipe is a duplex connection between endpoints a and b.
type pipe struct {
	ab, ba *dir // a->b, b->a
	a, b   *end
}

func newPipe() *pipe {
	p := &pipe{ab: newDir(), ba: newDir()}
	aa := &net.TCPAddr{IP: net.IPv4(127, 0, 0, 1), Port: 10001}
	bb := &net.TCPAddr{IP: net.IPv4(127, 0, 0, 1), Port: 10002}
	p.a = &end{in: p.ba, out: p.ab, local: aa, remote: bb}
	p.b = &end{in: p.ab, out: p.ba, local: bb, remote: aa}
	return p
}

func (p *pipe) closeAll() {
	p.ab.close()
	p.ba.close()
}

func concat(units ...[]byte) []byte {
	var out []byte
	for _, u := range units {
		out = append(out, u...)
	}
	return out
}
