// C03 — a correct validator never equivocates and obeys the locking rules.
// Engine E1 (deviation-bounded exploration) over netsim: real ConsensusState nodes, every
// signature request judged against the checker's own tally of what was delivered to that node.
package main

import (
	"fmt"
	"os"
	"runtime/pprof"
	"strconv"
	"time"

	"verif/mc/report"
	"verif/netsim"
)

func main() {
	r := report.New("C03", "exploration")
	if pf := os.Getenv("NETSIM_PPROF"); pf != "" {
		f, _ := os.Create(pf)
		pprof.StartCPUProfile(f)
		defer pprof.StopCPUProfile()
	}
	b := 2
	if r.Thorough() {
		b = 3
	}
	if v := os.Getenv("NETSIM_BOUND"); v != "" {
		b, _ = strconv.Atoi(v)
	}
	scen := []netsim.Scenario{}
	if os.Getenv("NETSIM_ONLY_DRIVERS") == "" {
		scen = []netsim.Scenario{
			{Cfg: netsim.Config{Name: "4x1-byz-nonproposer", Powers: []int64{1, 1, 1, 1}, Byz: []int{3}, ByzMenu: true, TargetHeight: 1, MaxRound: 4, MaxSteps: 400}, Bound: b},
			{Cfg: netsim.Config{Name: "4x1-byz-proposer", Powers: []int64{1, 1, 1, 1}, ByzProposer: true, ByzMenu: true, TargetHeight: 1, MaxRound: 4, MaxSteps: 400}, Bound: imax(1, b-1)},
			{Cfg: netsim.Config{Name: "4x1-byz-proposer-AB", Powers: []int64{1, 1, 1, 1}, ByzProposer: true, ByzMenu: true, ByzVariants: []string{"A", "B"}, TargetHeight: 1, MaxRound: 4, MaxSteps: 400}, Bound: b - 1},
			// the Byzantine validator proposes at height 2 (last commit, median time and parent id are checked from there on)
			{Cfg: netsim.Config{Name: "4x1-byz-proposer-height2", Powers: []int64{1, 1, 1, 1}, ByzProposer: true, ByzTurn: 2, ByzMenu: true, TargetHeight: 2, MaxRound: 4, MaxSteps: 800}, Bound: imax(1, b-1)},
		}
	}
	// correct nodes may be restarted (real WAL, real catch-up replay): no conflicting signature across a restart
	scen = append(scen, netsim.Scenario{Cfg: netsim.Config{Name: "4x1-restarts", Powers: []int64{1, 1, 1, 1}, Byz: []int{3}, ByzMenu: true, ByzVariants: []string{"A", "B"}, Restarts: true, TargetHeight: 2, MaxRound: 4, MaxSteps: 1000}, Bound: b - 1})
	scen = append(scen, netsim.Scenario{Cfg: netsim.Config{Name: "7x1-two-byz", Powers: []int64{1, 1, 1, 1, 1, 1, 1}, Byz: []int{5, 6}, ByzMenu: true, ByzVariants: []string{"A", "B"}, TargetHeight: 1, MaxRound: 4, MaxSteps: 1000}, Bound: b - 1})
	scen = append(scen, netsim.Scenario{Cfg: netsim.Config{Name: "4x1-valset-change", Powers: []int64{1, 1, 1, 1}, Byz: []int{3}, ByzMenu: true, TargetHeight: 5, MaxRound: 4, MaxSteps: 2000,
		ValScript: map[uint64][]int64{1: {1, 3, 1, 1}, 2: {1, 3, 1, 0}}}, Bound: b - 1})
	for _, turn := range []int{2, 3} {
		scen = append(scen, netsim.Scenario{Cfg: netsim.Config{Name: fmt.Sprintf("solo-turn%d-arrival-orders", turn), Powers: []int64{1, 1, 1, 1}, SoloTurn: turn, Driver: "orders", TargetHeight: 1, MaxRound: 8, MaxSteps: 1500}, Bound: 0})
	}
	for _, turn := range []int{2, 3} {
		scen = append(scen, netsim.Scenario{Cfg: netsim.Config{Name: fmt.Sprintf("solo-turn%d-arrival-orders-own-precommit-needed", turn), Powers: []int64{1, 1, 1, 1}, SoloTurn: turn, Driver: "orders-weak", TargetHeight: 1, MaxRound: 8, MaxSteps: 1500}, Bound: 0})
	}
	scen = append(scen, netsim.Scenario{Cfg: netsim.Config{Name: "4x1-lock-split", Powers: []int64{1, 1, 1, 1}, Byz: []int{3}, ByzMenu: true, Driver: "lock-split", TargetHeight: 1, MaxRound: 5, MaxSteps: 500}, Bound: b - 1})
	scen = append(scen, netsim.Scenario{Cfg: netsim.Config{Name: "4x1-late-polka", Powers: []int64{1, 1, 1, 1}, Byz: []int{3}, ByzMenu: true, Driver: "late-polka", TargetHeight: 1, MaxRound: 6, MaxSteps: 600}, Bound: b - 1})
	// correct nodes that commit round 1's block while standing in round 2, then the next height, Byzantine menu on
	scen = append(scen, netsim.Scenario{Cfg: netsim.Config{Name: "4x1-late-commit-then-next-height", Powers: []int64{1, 1, 1, 1}, Byz: []int{3}, ByzMenu: true, Driver: "late-commit", TargetHeight: 2, MaxRound: 6, MaxSteps: 1500}, Bound: b - 1})
	// a correct node cut off for K failed rounds, then flooded with the backlog (round skips with timeouts pending), Byzantine menu on
	scen = append(scen, netsim.Scenario{Cfg: netsim.Config{Name: "4x1-lagging-node", Powers: []int64{1, 1, 1, 1}, Byz: []int{3}, ByzMenu: true, Driver: "lagging2", TargetHeight: 1, MaxRound: 8, MaxSteps: 1500}, Bound: b - 1})
	macro := "macro2"
	if os.Getenv("NETSIM_MACRO") != "" {
		macro = os.Getenv("NETSIM_MACRO")
	}
	if r.Thorough() {
		macro = "macro3"
	}
	scen = append(scen, netsim.Scenario{Cfg: netsim.Config{Name: "4x1-" + macro + "-round-shapes", Powers: []int64{1, 1, 1, 1}, Byz: []int{3}, Driver: macro, TargetHeight: 1, MaxRound: 8, MaxSteps: 1500}, Bound: 0})
	solo := "solo4"
	if r.Thorough() {
		solo = "solo5"
	}
	turns := []int{1}
	if r.Thorough() {
		turns = []int{1, 2, 3, 4}
	}
	for _, turn := range turns {
		scen = append(scen, netsim.Scenario{Cfg: netsim.Config{Name: fmt.Sprintf("solo-turn%d-%s-round-shapes", turn, solo), Powers: []int64{1, 1, 1, 1}, SoloTurn: turn, Driver: solo, TargetHeight: 1, MaxRound: 8, MaxSteps: 1500}, Bound: 0})
	}
	// extended round shapes (re-proposals with a POL round, stale polka after the own prevote)
	solox := "solo3x"
	if r.Thorough() {
		solox = "solo4x"
	}
	for _, turn := range turns {
		scen = append(scen, netsim.Scenario{Cfg: netsim.Config{Name: fmt.Sprintf("solo-turn%d-%s-round-shapes", turn, solox), Powers: []int64{1, 1, 1, 1}, SoloTurn: turn, Driver: solox, TargetHeight: 1, MaxRound: 8, MaxSteps: 1500}, Bound: 0})
	}
	dl := 10 * time.Minute
	if r.Thorough() {
		dl = 30 * time.Minute
	}
	netsim.RunScenarios(r, scen, netsim.Options{Prop: "C03", Rules: []string{"C03"}, Deadline: dl})
	r.Set("rule", "every execution of the netsim harness (real ConsensusState x N, Byzantine validator held by the explorer) with at most `completed_bound` deviations from the synchronous schedule; "+
		"a case is an execution; non-trivial = ran to a terminal outcome (not cut by state-key pruning)")
	pprof.StopCPUProfile()
	r.Finish()
}

func imax(a, b int) int {
	if a > b {
		return a
	}
	return b
}
