package main

// Free-running race pass (run.sh: checks/c16/RACEPASS, C16_RACE_PASS=1, binary built with -race).
//
// Every other part of this check is a cooperative enumeration: each case runs to completion on its own
// objects, so unsynchronised writes to state that lib/rlp shares behind its interface are invisible to it
// (encBufferPool and the encBuffer handed to EncodeToReader, streamPool, the Stream.uintbuf / sizebuf scratch
// areas, the type cache with its atomic.Value + mutex + infoWhileGenerating). Here 8 goroutines behind a
// barrier run a FIXED amount of work, each on PRIVATE values built inside the goroutine:
//
//	phase A (first use, concurrently): struct types that nothing in the process has handed to lib/rlp before:
//	  several types shared by all goroutines and first used by all of them at the same time, three fresh types
//	  per goroutine (reflect.StructOf with goroutine-specific field names), nil / nilList / nilString / optional /
//	  tail tags, RawValue, and the chain types. Expected bytes come from the go-ethereum reference (its own,
//	  separate type cache), computed single-threaded before the barrier, so the lib/rlp type cache is cold.
//	phase B (steady state, fixed iterations): big integers of every size class, scalars, RawValue, all encoder
//	  entry points (EncodeToBytes, Encode to a writer, EncodeToReader read fully / piecewise past EOF /
//	  abandoned half-way), DecodeBytes, NewStream / NewListStream call sequences, Split* / CountValues /
//	  list iterator, chain types incl. hashes; every result is compared with the value computed beforehand
//	  single-threaded.
//
// The deciding oracle is the race detector (run.sh turns exit code 66 into the violation
// C16|oracle=data-race|at=<writing functions>); the comparison with the single-threaded values is the second.

import (
	"bytes"
	"fmt"
	"io"
	"io/ioutil"
	"math/big"
	"os"
	"reflect"
	"sync"
	"time"

	grlp "github.com/ethereum/go-ethereum/rlp"
	krlp "github.com/kardiachain/go-kardia/lib/rlp"
	"github.com/kardiachain/go-kardia/types"
)

const (
	raceGoroutines = 8
	raceIterations = 250
)

// ---- types first handed to lib/rlp inside the race pass (nothing else in the checker uses them) ----

type raceInner struct {
	X uint16
	Y []byte
}

type raceShared1 struct {
	A uint64
	B *big.Int
	C []byte
	D [4]byte
	E []raceInner
	F *uint64    `rlp:"nil"`
	G *[]uint64  `rlp:"nilList"`
	H *[]byte    `rlp:"nilString"`
	I *raceInner `rlp:"nil"`
	T []string   `rlp:"tail"`
}

type raceShared2Inner struct {
	V [20]byte
	W []*big.Int
}

type raceShared2 struct {
	P  *raceShared2Inner
	L  [][]uint32
	S  string
	Bo bool
	Bg big.Int
	Ar [2]raceInner
	If interface{}
}

type raceSharedOpt struct {
	A uint64
	B []byte   `rlp:"optional"`
	C *big.Int `rlp:"optional"`
}

type raceRawK struct {
	R krlp.RawValue
	L []krlp.RawValue
	N uint64
}

type raceRawG struct {
	R grlp.RawValue
	L []grlp.RawValue
	N uint64
}

func raceBig(n int, first byte) *big.Int {
	if n == 0 {
		return new(big.Int)
	}
	b := bytes.Repeat([]byte{0xa5}, n)
	b[0] = first
	return new(big.Int).SetBytes(b)
}

func mkShared1(v int) *raceShared1 {
	s := &raceShared1{A: uint64(v) << 40, B: raceBig(33+v, 1), C: fill(55+v, byte(v)), D: [4]byte{0, 1, 0x7f, 0x80},
		E: []raceInner{{X: 0x80, Y: []byte{0x7f}}, {X: 0, Y: fill(56, 1)}}, T: []string{"", "\x7f", "tail", string(fill(60, 'x'))}}
	if v%2 == 1 {
		f, g, h := uint64(0x100), []uint64{0, 1, 1 << 63}, []byte{0x80}
		s.F, s.G, s.H, s.I = &f, &g, &h, &raceInner{X: 1, Y: nil}
	}
	return s
}

func mkShared2(v int) *raceShared2 {
	s := &raceShared2{P: &raceShared2Inner{V: [20]byte{19: byte(v)}, W: []*big.Int{raceBig(0, 0), raceBig(8, 0x80), raceBig(9, 1), raceBig(65, 0xff)}},
		L: [][]uint32{{}, {0, 0x7f, 0x80, 1<<32 - 1}}, S: string(fill(v, 'k')), Bo: v%2 == 0, Bg: *raceBig(32, 0xff),
		Ar: [2]raceInner{{X: 1}, {X: 0xffff, Y: []byte{0}}}, If: []interface{}{[]byte{1}, []interface{}{}, []byte{}}}
	return s
}

// per-goroutine fresh types: distinct Go types because the field names carry the goroutine number
type raceFresh struct {
	t1, t2, t3 reflect.Type
}

func mkFresh(g int) raceFresh {
	f := func(n string) string { return fmt.Sprintf("G%d%s", g, n) }
	t1 := reflect.StructOf([]reflect.StructField{{Name: f("A"), Type: u64T}, {Name: f("B"), Type: reflect.TypeOf([]byte(nil))}, {Name: f("C"), Type: bigPtrT}})
	t2 := reflect.StructOf([]reflect.StructField{{Name: f("P"), Type: reflect.PtrTo(t1), Tag: `rlp:"nil"`}, {Name: f("L"), Type: reflect.SliceOf(t1)}, {Name: f("S"), Type: reflect.TypeOf("")}})
	t3 := reflect.StructOf([]reflect.StructField{{Name: f("M"), Type: reflect.TypeOf([2]uint32{})}, {Name: f("N"), Type: t2}, {Name: f("T"), Type: reflect.SliceOf(t1), Tag: `rlp:"tail"`}})
	return raceFresh{t1, t2, t3}
}

// freshValues builds private values of the three types (pointers).
func (rf raceFresh) values(g int) []interface{} {
	v1 := func(k int) reflect.Value {
		v := reflect.New(rf.t1).Elem()
		v.Field(0).SetUint(uint64(g)<<8 | uint64(k))
		v.Field(1).SetBytes(fill(54+k, byte(g)))
		v.Field(2).Set(reflect.ValueOf(raceBig(31+k+g, 0x80)))
		return v
	}
	a := reflect.New(rf.t1)
	a.Elem().Set(v1(0))
	b := reflect.New(rf.t2)
	b.Elem().Field(1).Set(reflect.Append(reflect.MakeSlice(reflect.SliceOf(rf.t1), 0, 2), v1(1), v1(2)))
	b.Elem().Field(2).SetString("fresh")
	if g%2 == 0 {
		p := reflect.New(rf.t1)
		p.Elem().Set(v1(3))
		b.Elem().Field(0).Set(p)
	}
	c := reflect.New(rf.t3)
	c.Elem().Field(0).Set(reflect.ValueOf([2]uint32{uint32(g), 1 << 31}))
	c.Elem().Field(1).Set(b.Elem())
	c.Elem().Field(2).Set(reflect.Append(reflect.MakeSlice(reflect.SliceOf(rf.t1), 0, 1), v1(4)))
	return []interface{}{a.Interface(), b.Interface(), c.Interface()}
}

// ---- chain objects, built privately ----

type raceChain struct {
	tx  *types.Transaction
	rc  *types.Receipt
	log *types.Log
	hd  *types.Header
	bi  *types.BlockInfo
	acc *types.StateAccount
}

func mkRaceChain() raceChain {
	to := addrOf(0x11, 20)
	rc := &types.Receipt{PostState: fill(32, 1), CumulativeGasUsed: 0x80, Logs: mkLogs(3), TxHash: hashFill(2), ContractAddress: addrOf(3, 20), GasUsed: 7}
	return raceChain{
		tx:  types.NewTransaction(7, to, bigPow(200, 1), 21000, big.NewInt(3), fill(70, 9)),
		rc:  rc,
		log: mkLogs(3)[1],
		hd:  &types.Header{Height: 9, Time: time.Date(2021, 3, 4, 5, 6, 7, 8, time.UTC), NumTxs: 2, GasLimit: 1 << 40, LastBlockID: types.BlockID{Hash: hashFill(1), PartsHeader: types.PartSetHeader{Total: 3, Hash: hashFill(2)}}, AppHash: hashFill(5)},
		bi:  &types.BlockInfo{GasUsed: 5, Rewards: bigPow(70, 0), Receipts: types.Receipts{rc, {Status: 1, CumulativeGasUsed: 1}}, Bloom: types.BytesToBloom([]byte{1})},
		acc: &types.StateAccount{Nonce: 1 << 33, Balance: bigPow(100, 3), Root: types.EmptyRootHash, CodeHash: types.EmptyCodeHash[:]},
	}
}

func raceChainMirrors(c raceChain) []interface{} {
	to := [20]byte(addrOf(0x11, 20))
	return []interface{}{
		&txMirror{Nonce: 7, Price: big.NewInt(3), Gas: 21000, To: &to, Amount: bigPow(200, 1), Payload: fill(70, 9), V: new(big.Int), R: new(big.Int), S: new(big.Int)},
		&receiptMirror{statusBytes(c.rc.PostState, c.rc.Status), c.rc.CumulativeGasUsed, c.rc.Bloom, mirrorLogs(c.rc.Logs)},
		storageMirror(c.rc),
		mirrorLogs([]*types.Log{c.log})[0],
		&accountMirror{c.acc.Nonce, c.acc.Balance, c.acc.Root, c.acc.CodeHash},
	}
}

func (c raceChain) encodables() []interface{} {
	return []interface{}{c.tx, c.rc, (*types.ReceiptForStorage)(c.rc), c.log, c.acc}
}

// ---- phase A ----

type racePre struct {
	shared [][]byte   // expected encodings of the shared first-use cases, in raceSharedCases order
	fresh  [][][]byte // [goroutine][3]
	chain  [][]byte
}

func raceSharedCases() []interface{} {
	rawK := func() *raceRawK {
		return &raceRawK{R: krlp.RawValue{0xc2, 0x01, 0x80}, L: []krlp.RawValue{{0x80}, {0x81, 0xff}, append([]byte{0xb8, 56}, fill(56, 3)...)}, N: 1 << 20}
	}
	return []interface{}{mkShared1(0), mkShared1(1), mkShared2(0), mkShared2(57), rawK(),
		&raceSharedOpt{A: 1, B: []byte{2}, C: big.NewInt(3)}, &raceSharedOpt{A: 1}}
}

// raceSharedExpect computes the expected bytes with the reference only (lib/rlp must stay cold).
func raceSharedExpect() [][]byte {
	var out [][]byte
	enc := func(v interface{}) {
		b, err, pan := encG(v)
		if err != nil || pan != "" {
			fmt.Println("race pass: the reference cannot encode an expected value:", err, pan)
			os.Exit(2)
		}
		out = append(out, b)
	}
	enc(mkShared1(0))
	enc(mkShared1(1))
	enc(mkShared2(0))
	enc(mkShared2(57))
	enc(&raceRawG{R: grlp.RawValue{0xc2, 0x01, 0x80}, L: []grlp.RawValue{{0x80}, {0x81, 0xff}, append([]byte{0xb8, 56}, fill(56, 3)...)}, N: 1 << 20})
	enc([]interface{}{uint64(1), []byte{2}, big.NewInt(3)}) // optional fields all present
	enc([]interface{}{uint64(1)})                           // trailing optional fields absent
	return out
}

func racePhaseA(g int, pre *racePre, rf raceFresh) (bad []string) {
	check := func(what string, v interface{}, want []byte) {
		enc, err := krlp.EncodeToBytes(v)
		if err != nil || !bytes.Equal(enc, want) {
			bad = append(bad, fmt.Sprintf("%s: first-use encoding %s err=%v, reference %s", what, trunc(hx(enc), 60), err, trunc(hx(want), 60)))
			return
		}
		out := reflect.New(reflect.TypeOf(v).Elem())
		if err := krlp.DecodeBytes(want, out.Interface()); err != nil {
			bad = append(bad, fmt.Sprintf("%s: first-use decode fails: %v", what, err))
			return
		}
		if e2, err := krlp.EncodeToBytes(out.Interface()); err != nil || !bytes.Equal(e2, want) {
			bad = append(bad, fmt.Sprintf("%s: re-encoding after first-use decode %s err=%v", what, trunc(hx(e2), 60), err))
		}
	}
	// the order differs per goroutine so that different types are generated at the same moment
	shared := raceSharedCases()
	fresh := rf.values(g)
	ch := mkRaceChain().encodables()
	n := len(shared) + len(fresh) + len(ch)
	for k := 0; k < n; k++ {
		i := (k + g*3) % n
		switch {
		case i < len(shared):
			check(fmt.Sprintf("shared case %d", i), shared[i], pre.shared[i])
		case i < len(shared)+len(fresh):
			j := i - len(shared)
			check(fmt.Sprintf("fresh type %d of goroutine %d", j, g), fresh[j], pre.fresh[g][j])
		default:
			j := i - len(shared) - len(fresh)
			check(fmt.Sprintf("chain object %d", j), ch[j], pre.chain[j])
		}
	}
	return
}

// ---- phase B ----

var raceBigLens = []int{0, 1, 2, 8, 9, 31, 32, 33, 55, 56, 64, 65, 256}

func raceBodyB() (out []string) {
	add := func(k string, v interface{}) { out = append(out, fmt.Sprintf("%s=%v", k, v)) }
	encHex := func(v interface{}) string {
		b, err := krlp.EncodeToBytes(v)
		if err != nil {
			return "error: " + err.Error()
		}
		return hx(b)
	}
	// big integers of every size class: alone, in a struct, in a list; decode back
	var bigs []*big.Int
	for _, n := range raceBigLens {
		for _, first := range []byte{0x01, 0x7f, 0x80, 0xff} {
			x := raceBig(n, first)
			bigs = append(bigs, x)
			e, _ := krlp.EncodeToBytes(x)
			var back *big.Int
			err := krlp.DecodeBytes(e, &back)
			var val big.Int
			err2 := krlp.DecodeBytes(e, &val)
			add(fmt.Sprintf("big%d/%02x", n, first), fmt.Sprintf("%x %v %v %v %v", e, err, err2, back != nil && back.Cmp(x) == 0, val.Cmp(x) == 0))
			// a leading zero byte must be refused in every size class
			if n > 0 {
				pad := append([]byte{0}, x.Bytes()...)
				pe, _ := krlp.EncodeToBytes(pad)
				add(fmt.Sprintf("big%d/%02x/padded", n, first), krlp.DecodeBytes(pe, &back) != nil)
			}
		}
	}
	type bigHost struct {
		A *big.Int
		B big.Int
		L []*big.Int
	}
	h := &bigHost{A: bigs[20], B: *bigs[30], L: bigs}
	he, _ := krlp.EncodeToBytes(h)
	var hb bigHost
	add("bighost", fmt.Sprintf("%d %v %v", len(he), krlp.DecodeBytes(he, &hb), len(hb.L) == len(bigs) && hb.L[17].Cmp(bigs[17]) == 0 && hb.A.Cmp(bigs[20]) == 0))
	// composite values, RawValue
	s1, s2 := mkShared1(1), mkShared2(3)
	e1, e2 := encHex(s1), encHex(s2)
	add("shared1", e1)
	add("shared2", e2)
	raw := &raceRawK{R: krlp.RawValue{0xc1, 0x05}, L: []krlp.RawValue{{0x05}, {0x82, 0x80, 0x00}}, N: 77}
	re, _ := krlp.EncodeToBytes(raw)
	var rb raceRawK
	add("raw", fmt.Sprintf("%x %v %x %d", re, krlp.DecodeBytes(re, &rb), []byte(rb.R), len(rb.L)))
	// encoder entry points
	var w bytes.Buffer
	add("encode-writer", fmt.Sprintf("%v %v", krlp.Encode(&w, s1), hx(w.Bytes()) == e1))
	size, rd, err := krlp.EncodeToReader(s2)
	all, rerr := ioutil.ReadAll(rd)
	add("reader-full", fmt.Sprintf("%d %v %v %v", size, err, rerr, hx(all) == e2))
	_, rd, _ = krlp.EncodeToReader(s1)
	var piece []byte
	chunk := make([]byte, 5)
	for {
		n, err := rd.Read(chunk)
		piece = append(piece, chunk[:n]...)
		if err != nil {
			break
		}
	}
	n2, err2 := rd.Read(chunk) // past EOF: the buffer has already gone back to the pool
	add("reader-piecewise", fmt.Sprintf("%v %d %v", hx(piece) == e1, n2, err2 == io.EOF))
	_, rd, _ = krlp.EncodeToReader(s2)
	half := make([]byte, 7)
	nh, _ := io.ReadFull(rd, half)
	add("reader-abandoned", fmt.Sprintf("%d %x", nh, half)) // never read to EOF: its buffer is not returned
	// while those readers existed other values were encoded: the bytes taken from them must be unchanged
	add("reader-bytes-stable", hx(all) == e2 && hx(piece) == e1 && encHex(mkShared2(3)) == e2)
	// decoding: DecodeBytes, Stream walk, NewListStream
	b1, _ := krlp.EncodeToBytes(s1)
	var d1 raceShared1
	add("decode-shared1", fmt.Sprintf("%v %v", krlp.DecodeBytes(b1, &d1), encHex(&d1) == e1))
	used, werr := walk(krlp.NewStream(bytes.NewReader(b1), 0), 0)
	add("stream-walk", fmt.Sprintf("%d %v", used, werr))
	sm := krlp.NewStream(bytes.NewReader(b1), uint64(len(b1)))
	_, lerr := sm.List()
	a, aerr := sm.Uint()
	k1, z1, kerr := sm.Kind()
	k2, z2, kerr2 := sm.Kind()
	var bg *big.Int
	berr := sm.Decode(&bg)
	add("stream-seq", fmt.Sprintf("%v %d %v %v %d %v %v %v %v %v", lerr, a, aerr, k1, z1, kerr, k1 == k2 && z1 == z2 && kerr == kerr2, bg, berr, sm.ListEnd() != nil))
	_, pl, _, _ := krlp.Split(b1)
	ls := krlp.NewListStream(bytes.NewReader(pl), uint64(len(pl)))
	cnt := 0
	if _, err := ls.List(); err == nil {
		for {
			if _, err := ls.Raw(); err != nil {
				add("liststream-end", err == krlp.EOL)
				break
			}
			cnt++
		}
	}
	add("liststream-items", fmt.Sprintf("%d %v", cnt, ls.ListEnd()))
	// raw API on a private copy
	cp := append([]byte{}, b1...)
	kd, content, rest, serr := krlp.Split(cp)
	nv, cerr := krlp.CountValues(content)
	add("split", fmt.Sprintf("%v %d %d %v %d %v", kd, len(content), len(rest), serr, nv, cerr))
	it, ierr := krlp.NewListIterator(cp)
	items, tot := 0, 0
	if ierr == nil {
		for it.Next() {
			if it.Err() != nil {
				break
			}
			items++
			tot += len(it.Value())
		}
	}
	add("iterator", fmt.Sprintf("%v %d %d", ierr, items, tot))
	x, _, uerr := krlp.SplitUint64(content)
	add("splituint64", fmt.Sprintf("%d %v %x", x, uerr, krlp.AppendUint64(nil, x)))
	// chain types
	c := mkRaceChain()
	te, _ := krlp.EncodeToBytes(c.tx)
	var tb types.Transaction
	add("tx", fmt.Sprintf("%x %v %v %v %v", te[:8], krlp.DecodeBytes(te, &tb), tb.Hash() == c.tx.Hash(), c.tx.Hash().Hex(), uint64(tb.Size()) == uint64(len(te)) && c.tx.Size() == tb.Size()))
	txs := types.Transactions{c.tx, &tb}
	le, _ := krlp.EncodeToBytes(txs)
	var lb types.Transactions
	add("txs", fmt.Sprintf("%d %v %v", len(le), krlp.DecodeBytes(le, &lb), len(lb) == 2 && lb[1].Hash() == c.tx.Hash()))
	rce, _ := krlp.EncodeToBytes(c.rc)
	var rcb types.Receipt
	add("receipt", fmt.Sprintf("%d %v %v", len(rce), krlp.DecodeBytes(rce, &rcb), sameConsensus(c.rc, &rcb)))
	rse, _ := krlp.EncodeToBytes((*types.ReceiptForStorage)(c.rc))
	var rsb types.ReceiptForStorage
	add("receipt-storage", fmt.Sprintf("%d %v %v", len(rse), krlp.DecodeBytes(rse, &rsb), rsb.TxHash == c.rc.TxHash && encHex(&rsb) == hx(rse)))
	lge, _ := krlp.EncodeToBytes(c.log)
	var lgb types.Log
	var lsb types.LogForStorage
	add("log", fmt.Sprintf("%x %v %v %v", lge[:6], krlp.DecodeBytes(lge, &lgb), krlp.DecodeBytes(lge, &lsb), sameLogs([]*types.Log{c.log}, []*types.Log{&lgb})))
	hde, _ := krlp.EncodeToBytes(c.hd)
	var hdb types.Header
	add("header", fmt.Sprintf("%d %v %v %v", len(hde), krlp.DecodeBytes(hde, &hdb), hdb.Height == c.hd.Height && hdb.AppHash == c.hd.AppHash, c.hd.Hash().Hex()))
	bie, _ := krlp.EncodeToBytes(c.bi)
	var bib types.BlockInfo
	add("blockinfo", fmt.Sprintf("%d %v %v %v", len(bie), krlp.DecodeBytes(bie, &bib), len(bib.Receipts) == 2 && bib.Rewards.Cmp(c.bi.Rewards) == 0, uint64(c.bi.Size()) == uint64(len(bie))))
	ace, _ := krlp.EncodeToBytes(c.acc)
	var acb types.StateAccount
	slim := types.SlimAccountRLP(*c.acc)
	full, ferr := types.FullAccountRLP(slim)
	add("account", fmt.Sprintf("%x %v %v %v %v", ace, krlp.DecodeBytes(ace, &acb), acb.Balance.Cmp(c.acc.Balance) == 0, ferr, bytes.Equal(full, ace)))
	return
}

// ---- driver ----

func runRacePass() {
	t0 := time.Now()
	// expectations of phase A: reference only, lib/rlp has not seen any of these types yet
	pre := &racePre{shared: raceSharedExpect()}
	fresh := make([]raceFresh, raceGoroutines)
	for g := range fresh {
		fresh[g] = mkFresh(g)
		var exp [][]byte
		for _, v := range fresh[g].values(g) {
			b, err, pan := encG(v)
			if err != nil || pan != "" {
				fmt.Println("race pass: the reference cannot encode a fresh value:", err, pan)
				os.Exit(2)
			}
			exp = append(exp, b)
		}
		pre.fresh = append(pre.fresh, exp)
	}
	for _, m := range raceChainMirrors(mkRaceChain()) {
		b, err, pan := encG(m)
		if err != nil || pan != "" {
			fmt.Println("race pass: the reference cannot encode a chain mirror:", err, pan)
			os.Exit(2)
		}
		pre.chain = append(pre.chain, b)
	}
	var wg sync.WaitGroup
	var mu sync.Mutex
	var mismatches []string
	note := func(s string) {
		mu.Lock()
		if len(mismatches) < 20 {
			mismatches = append(mismatches, s)
		}
		mu.Unlock()
	}
	// phase A
	start := make(chan struct{})
	for g := 0; g < raceGoroutines; g++ {
		wg.Add(1)
		go func(g int) {
			defer wg.Done()
			<-start
			if pan := guard(func() {
				for _, b := range racePhaseA(g, pre, fresh[g]) {
					note(fmt.Sprintf("goroutine %d (first use): %s", g, b))
				}
			}); pan != "" {
				note(fmt.Sprintf("goroutine %d (first use): panic: %s", g, pan))
			}
		}(g)
	}
	close(start)
	wg.Wait()
	tA := time.Since(t0)
	// phase B: single-threaded values first (twice: they must agree with themselves)
	want := raceBodyB()
	if again := raceBodyB(); fmt.Sprint(again) != fmt.Sprint(want) {
		fmt.Println("race pass: the single-threaded reference run is not deterministic")
		os.Exit(2)
	}
	start = make(chan struct{})
	for g := 0; g < raceGoroutines; g++ {
		wg.Add(1)
		go func(g int) {
			defer wg.Done()
			<-start
			for it := 0; it < raceIterations; it++ {
				var got []string
				if pan := guard(func() { got = raceBodyB() }); pan != "" {
					note(fmt.Sprintf("goroutine %d iteration %d: panic: %s", g, it, pan))
					continue
				}
				for k := range want {
					if k >= len(got) || got[k] != want[k] {
						gv := "<missing>"
						if k < len(got) {
							gv = got[k]
						}
						note(fmt.Sprintf("goroutine %d iteration %d: got %s, single-threaded value %s", g, it, trunc(gv, 200), trunc(want[k], 200)))
					}
				}
			}
		}(g)
	}
	close(start)
	wg.Wait()
	fmt.Printf("race pass: %d goroutines; phase A: %d first-use cases each (%.1fs); phase B: %d iterations x %d results each (%.1fs total)\n",
		raceGoroutines, len(pre.shared)+3+len(pre.chain), tA.Seconds(), raceIterations, len(want), time.Since(t0).Seconds())
	if len(mismatches) > 0 {
		for _, m := range mismatches {
			fmt.Println("RESULT DIFFERS FROM THE SINGLE-THREADED VALUE:", m)
		}
		os.Exit(1)
	}
	os.Exit(0)
}
