package main

// Part (c2): header mutations of chain types, in particular those with a hand-written DecodeRLP that looks
// at the stream before decoding (Transaction: Kind() for the size cache; LogForStorage: Raw(); Receipt,
// ReceiptForStorage, BlockInfo, Log: Decode into a helper struct). For SMALL instances (payload < 56 bytes
// where the type allows it: zero / small V,R,S, empty data, no topics) and ordinary ones, the header of the
// outer list, of the first inner list and of the first non-empty inner string is replaced by every other
// form (long form with 1,2,3,8 size bytes zero padded, claimed size -1 / +1), alone, as the only element of
// an enclosing list and behind a canonical sibling. Oracle: accepted => the input is canonical RLP (recogniser)
// and re-encoding the decoded object gives the input back; the canonical control must be accepted.

import (
	"bytes"
	"fmt"
	"math/big"
	"reflect"
	"strings"

	"github.com/kardiachain/go-kardia/lib/common"
	"github.com/kardiachain/go-kardia/types"
)

type chainHdrCase struct {
	family, instance string
	target           string // outer | inner-list | inner-string
	form             string
	host             string // alone | in-list | after-sibling
	input            []byte
	control          bool // the canonical encoding itself
	elem             reflect.Type
	noReencode       bool   // legacy storage format: decoding migrates it, re-encoding legitimately differs
	broken           string // the encoder did not produce a canonical list for the instance: reported, nothing to mutate
}

func canonHeader(n int, list bool) []byte {
	for _, f := range headerForms(n, list) {
		if f.kind == "short" {
			return f.hdr
		}
	}
	var be []byte
	for x := n; x > 0; x >>= 8 {
		be = append([]byte{byte(x)}, be...)
	}
	base := byte(0xb7)
	if list {
		base = 0xf7
	}
	return append([]byte{base + byte(len(be))}, be...)
}

func chainHeaderCases() []chainHdrCase {
	type inst struct {
		family, name string
		enc          []byte
		elem         reflect.Type
		noReencode   bool
	}
	var insts []inst
	add := func(family, name string, v interface{}, elem interface{}, noRe bool) {
		enc, err, pan := encK(v)
		if err != nil || pan != "" {
			enc = nil // reported as a broken instance below
		}
		insts = append(insts, inst{family, name, enc, reflect.TypeOf(elem), noRe})
	}
	to := addrOf(0xaa, 1)
	one := big.NewInt(1)
	txT, logT, lfsT, rcT, rfsT, biT, acT, hdT := types.Transaction{}, types.Log{}, types.LogForStorage{}, types.Receipt{}, types.ReceiptForStorage{}, types.BlockInfo{}, types.StateAccount{}, types.Header{}
	add("Transaction", "small-zero-sig", types.NewTransaction(1, to, one, 21000, one, nil), txT, false)
	add("Transaction", "small-create", types.NewContractCreation(0, new(big.Int), 0, new(big.Int), nil), txT, false)
	add("Transaction", "data-40", types.NewTransaction(0x80, to, one, 21000, one, fill(40, 7)), txT, false)
	add("Transaction", "data-60", types.NewTransaction(1, to, two256m1, 1<<64-1, two256m1, fill(60, 7)), txT, false)
	logs := mkLogs(3)
	add("Log", "no-topics", logs[2-2+2], logT, false) // l0: empty
	add("Log", "one-topic", logs[0], logT, false)
	add("Log", "two-topics-data", logs[1], logT, false)
	add("LogForStorage", "no-topics", (*types.LogForStorage)(logs[2]), lfsT, false)
	add("LogForStorage", "one-topic", (*types.LogForStorage)(logs[0]), lfsT, false)
	{
		l := logs[0]
		m := mirrorLogs([]*types.Log{l})[0]
		leg, _, _ := encG(&legacyLogMirror{m.Address, m.Topics, m.Data, 9, hashFill(3), 2, hashFill(4), 5})
		insts = append(insts, inst{"LogForStorage", "legacy-format", leg, reflect.TypeOf(lfsT), true})
	}
	rc0 := &types.Receipt{Status: 1, CumulativeGasUsed: 1}
	rc1 := &types.Receipt{PostState: fill(32, 1), CumulativeGasUsed: 0x80, Logs: mkLogs(3), TxHash: hashFill(2), ContractAddress: addrOf(3, 20), GasUsed: 7}
	add("Receipt", "no-logs", rc0, rcT, false)
	add("Receipt", "logs", rc1, rcT, false)
	add("ReceiptForStorage", "no-logs", (*types.ReceiptForStorage)(rc0), rfsT, false)
	add("ReceiptForStorage", "logs", (*types.ReceiptForStorage)(rc1), rfsT, false)
	add("BlockInfo", "empty", &types.BlockInfo{GasUsed: 1, Rewards: one}, biT, false)
	add("BlockInfo", "receipts", &types.BlockInfo{GasUsed: 1, Rewards: two256m1, Receipts: types.Receipts{rc0, rc1}}, biT, false)
	add("StateAccount", "empty", &types.StateAccount{Nonce: 0, Balance: new(big.Int), Root: types.EmptyRootHash, CodeHash: types.EmptyCodeHash[:]}, acT, false)
	add("Header", "zero", &types.Header{}, hdT, false)
	add("Header", "filled", &types.Header{Height: 1, NumTxs: 2, GasLimit: 3, LastBlockID: types.BlockID{Hash: hashFill(1), PartsHeader: types.PartSetHeader{Total: 1, Hash: hashFill(2)}}, ProposerAddress: common.Address{1}}, hdT, false)

	var out []chainHdrCase
	for _, in := range insts {
		it, reason := canonical(in.enc)
		if reason != "" || !it.list {
			out = append(out, chainHdrCase{family: in.family, instance: in.name, elem: in.elem, input: in.enc,
				broken: fmt.Sprintf("the encoding %s of the instance is not a canonical RLP list (%s)", trunc(hx(in.enc), 80), reason)})
			continue
		}
		emit := func(target, form string, mutated []byte) {
			control := bytes.Equal(mutated, in.enc)
			for _, h := range []struct {
				name string
				b    []byte
			}{{"alone", mutated}, {"in-list", listWrap(mutated)}, {"after-sibling", listWrap(in.enc, mutated)}} {
				out = append(out, chainHdrCase{family: in.family, instance: in.name, target: target, form: form, host: h.name, input: h.b, control: control, elem: in.elem, noReencode: in.noReencode})
			}
		}
		// outer header
		for _, f := range headerForms(len(it.content), true) {
			emit("outer", f.kind, append(append([]byte{}, f.hdr...), it.content...))
		}
		// first inner list and first non-empty inner string (depth 1)
		off := 0
		doneList, doneStr := false, false
		for _, c := range it.children {
			chdr := c.total - len(c.content)
			isByte := !c.list && chdr == 0
			if (c.list && !doneList) || (!c.list && !isByte && len(c.content) > 0 && !doneStr) {
				target := "inner-string"
				if c.list {
					target, doneList = "inner-list", true
				} else {
					doneStr = true
				}
				for _, f := range headerForms(len(c.content), c.list) {
					pl := append(append(append(append([]byte{}, it.content[:off]...), f.hdr...), c.content...), it.content[off+c.total:]...)
					emit(target, f.kind, append(canonHeader(len(pl), true), pl...))
				}
			}
			off += c.total
		}
	}
	return out
}

func evalChainHeaderCase(c chainHdrCase, idx int, cx *ctx) {
	st := cx.st
	st.add("evaluations", 1)
	if c.broken != "" {
		cx.col.add(sigOf(c.family, "instance-encoding", "encoder-emits-noncanonical"), c.family+"/"+c.instance+": "+c.broken, replayCase{Part: "chainhdr", Type: c.family, Index: idx})
		return
	}
	st.add("chain_header_mutation_cases", 1)
	rc := replayCase{Part: "chainhdr", Type: c.family, Input: trunc(hx(c.input), 200), Index: idx}
	_, reason := canonical(c.input)
	cls := reason
	if cls == "" {
		cls = "canonical"
	}
	class := c.target + ":" + strings.TrimPrefix(cls, "nested:") // the host (alone / in a list) is named in the text only
	bad := func(oracle, what string) {
		cx.col.add(sigOf(c.family, class, oracle), fmt.Sprintf("%s/%s, %s header in form %s, %s: %s", c.family, c.instance, c.target, c.form, c.host, what), rc)
	}
	var dst reflect.Value
	if c.host == "alone" {
		dst = reflect.New(c.elem)
	} else {
		dst = reflect.New(reflect.SliceOf(reflect.PtrTo(c.elem)))
	}
	err, pan := decK(c.input, dst.Interface())
	st.dist("distinct_nontrivial", "chainhdr|"+c.family+"|"+c.instance+"|"+class+"@"+c.host+"|"+errClass(err))
	switch {
	case pan != "":
		bad("panic", pan)
	case err != nil && c.control:
		bad("canonical-rejected", fmt.Sprintf("the canonical encoding %s is rejected: %v", trunc(hx(c.input), 80), err))
	case err == nil && reason != "":
		enc, _, _ := encK(dst.Interface())
		bad("noncanonical-accepted", fmt.Sprintf("DecodeBytes accepts %s although it is not canonical RLP (%s); the decoded object encodes to %s: a second wire form of the same object",
			trunc(hx(c.input), 80), reason, trunc(hx(enc), 80)))
	case err == nil && !c.noReencode:
		st.add("chain_header_mutation_accepted", 1)
		if c.control {
			st.add("chain_header_mutation_controls_accepted", 1)
		}
		enc, eerr, epan := encK(dst.Interface())
		if eerr != nil || epan != "" || !bytes.Equal(enc, c.input) {
			bad("reencode-differs", fmt.Sprintf("accepted %s re-encodes to %s (err=%v %s)", trunc(hx(c.input), 80), trunc(hx(enc), 80), eerr, epan))
		}
	case err == nil:
		st.add("chain_header_mutation_accepted", 1)
	}
}
