package main

// Part (b2): structs whose RLP field list is NOT their Go field list.
//
// lib/rlp numbers the fields of a struct twice: by Go struct index and by position in the filtered list
// (exported fields without rlp:"-"). The two numberings coincide unless a skipped field (unexported, or
// tagged "-") comes first, and the writer for structs with rlp:"optional" fields walks the filtered list
// backwards to trim trailing zero-valued optionals. None of the other struct shapes of this check has a
// skipped field ahead of an optional one, so a mix-up of the two numberings was invisible. This part
// enumerates struct shapes with 0..1 required and 1..3 optional fields and a skipped field (both kinds) in
// every subset of the gaps (before all, between required and optional, between optionals, after all), over
// every zero / non-zero pattern of ALL fields including the skipped ones. Oracles:
//
//   - reference: the encoding equals what the go-ethereum reference produces for the list of the
//     non-skipped fields cut after the last non-zero optional field (the documented rule; the reference
//     itself has no optional tag, so it is given the list);
//   - the value of a skipped field does not influence the bytes;
//   - Decode(Encode(v)) == v on the non-skipped fields, re-encoding identical.

import (
	"bytes"
	"fmt"
	"reflect"
	"unsafe"
)

// fixed Go types with unexported fields (and "-" fields) at each position
type osFixedBeforeAll struct {
	u uint64
	A uint64
	B uint64 `rlp:"optional"`
	C uint64 `rlp:"optional"`
}

type osFixedBeforeOptionals struct {
	A uint64
	u uint64
	B uint64 `rlp:"optional"`
	C uint64 `rlp:"optional"`
}

type osFixedBetweenOptionals struct {
	A uint64
	B uint64 `rlp:"optional"`
	u []byte
	C uint64 `rlp:"optional"`
	D uint64 `rlp:"optional"`
}

type osFixedAfterAll struct {
	A uint64
	B uint64 `rlp:"optional"`
	C uint64 `rlp:"optional"`
	u uint64
}

type osFixedMixed struct {
	A uint64
	I uint64 `rlp:"-"`
	B []byte `rlp:"optional"`
	x []byte
	C *uint64 `rlp:"optional"`
	D string  `rlp:"optional"`
	J uint64  `rlp:"-"`
}

type osFixedOnlyOptionals struct {
	I uint64 `rlp:"-"`
	u uint64
	B uint64 `rlp:"optional"`
	C uint64 `rlp:"optional"`
}

type osShape struct {
	name  string
	t     reflect.Type
	roles []byte // per Go field: 'r' required, 'o' optional, 's' skipped by tag, 'u' unexported
	class string // position of the first skipped field that precedes the last optional field
}

func osRoles(t reflect.Type) []byte {
	var out []byte
	for i := 0; i < t.NumField(); i++ {
		f := t.Field(i)
		ft := fieldTag(f)
		switch {
		case f.PkgPath != "":
			out = append(out, 'u')
		case ft.ignored:
			out = append(out, 's')
		case ft.optional:
			out = append(out, 'o')
		default:
			out = append(out, 'r')
		}
	}
	return out
}

func osClass(roles []byte) string {
	lastOpt, firstOpt, firstReq := -1, -1, -1
	for i, r := range roles {
		if r == 'o' {
			lastOpt = i
			if firstOpt < 0 {
				firstOpt = i
			}
		}
		if r == 'r' && firstReq < 0 {
			firstReq = i
		}
	}
	for i, r := range roles {
		if (r != 's' && r != 'u') || i > lastOpt {
			continue
		}
		switch {
		case firstReq >= 0 && i < firstReq:
			return "skipped-field-before-all"
		case i < firstOpt:
			return "skipped-field-before-optionals"
		default:
			return "skipped-field-between-optionals"
		}
	}
	for _, r := range roles {
		if r == 's' || r == 'u' {
			return "skipped-field-after-all"
		}
	}
	return "no-skipped-field"
}

const osPkgPath = "verif/checks/c16"

func osShapes() []osShape {
	var out []osShape
	add := func(name string, t reflect.Type) {
		r := osRoles(t)
		out = append(out, osShape{name: name, t: t, roles: r, class: osClass(r)})
	}
	u64, bs, pu, str := u64T, reflect.TypeOf([]byte(nil)), reflect.TypeOf((*uint64)(nil)), reflect.TypeOf("")
	for _, mixed := range []bool{false, true} {
		for k := 1; k <= 3; k++ {
			for req := 1; req >= 0; req-- {
				if mixed && (k != 3 || req != 1) {
					continue
				}
				gaps := req + k + 1
				for mask := 0; mask < 1<<uint(gaps); mask++ {
					for _, kind := range []byte{'s', 'u'} {
						if mask == 0 && kind == 'u' {
							continue
						}
						var fs []reflect.StructField
						n := 0
						skip := func() {
							f := reflect.StructField{Name: fmt.Sprintf("S%d", n), Type: u64}
							if mixed {
								f.Type = bs
							}
							if kind == 's' {
								f.Tag = `rlp:"-"`
							} else {
								f.Name, f.PkgPath = fmt.Sprintf("u%d", n), osPkgPath
							}
							fs = append(fs, f)
							n++
						}
						for g := 0; g < gaps; g++ {
							if mask&(1<<uint(g)) != 0 {
								skip()
							}
							if g == gaps-1 {
								break
							}
							f := reflect.StructField{Name: fmt.Sprintf("F%d", n), Type: u64}
							if g >= req {
								f.Tag = `rlp:"optional"`
								if mixed {
									f.Type = []reflect.Type{bs, pu, str}[(g-req)%3]
								}
							}
							fs = append(fs, f)
							n++
						}
						t := reflect.StructOf(fs)
						add(fmt.Sprintf("gen(req=%d,opt=%d,skipped=%c@gaps%0*b,mixed=%v)", req, k, kind, gaps, mask, mixed), t)
					}
				}
			}
		}
	}
	add("osFixedBeforeAll", reflect.TypeOf(osFixedBeforeAll{}))
	add("osFixedBeforeOptionals", reflect.TypeOf(osFixedBeforeOptionals{}))
	add("osFixedBetweenOptionals", reflect.TypeOf(osFixedBetweenOptionals{}))
	add("osFixedAfterAll", reflect.TypeOf(osFixedAfterAll{}))
	add("osFixedMixed", reflect.TypeOf(osFixedMixed{}))
	add("osFixedOnlyOptionals", reflect.TypeOf(osFixedOnlyOptionals{}))
	return out
}

// osSet gives field i of the addressable struct v its non-zero value (works for unexported fields too).
func osSet(v reflect.Value, i int) {
	f := v.Field(i)
	f = reflect.NewAt(f.Type(), unsafe.Pointer(f.UnsafeAddr())).Elem()
	x := uint64(i + 1)
	switch f.Kind() {
	case reflect.Uint64:
		f.SetUint(x)
	case reflect.Slice:
		f.SetBytes([]byte{byte(x), 0x80})
	case reflect.Ptr:
		f.Set(reflect.ValueOf(&x))
	case reflect.String:
		f.SetString(string(rune('a' + i)))
	default:
		panic("osSet: unsupported field type " + f.Type().String())
	}
}

func osValue(sh osShape, pattern int) reflect.Value {
	p := reflect.New(sh.t)
	for i := range sh.roles {
		if pattern&(1<<uint(i)) != 0 {
			osSet(p.Elem(), i)
		}
	}
	return p
}

func evalOptSkip(sh osShape, shIdx, pattern int, cx *ctx) {
	st := cx.st
	st.add("evaluations", 1)
	st.add("optional_skipped_cases", 1)
	rc := replayCase{Part: "optskip", Type: sh.name, Index: shIdx<<12 | pattern}
	bad := func(oracle, what string) {
		cx.col.add(sigOf("struct-optional-skipped", sh.class, oracle), fmt.Sprintf("%s %v, non-zero field pattern %0*b (Go field 0 is the last digit): %s", sh.name, sh.t, len(sh.roles), pattern, what), rc)
	}
	pan := guard(func() {
		p := osValue(sh, pattern)
		v := p.Elem()
		// expected: the non-skipped fields, cut after the last non-zero optional one, as the reference encodes that list
		var elems []interface{}
		cut := 0
		for i, r := range sh.roles {
			if r == 's' || r == 'u' {
				continue
			}
			elems = append(elems, ptrTo(v.Field(i)).Interface())
			if r == 'r' || pattern&(1<<uint(i)) != 0 {
				cut = len(elems)
			}
		}
		want, gerr, gpan := encG(elems[:cut])
		if gerr != nil || gpan != "" {
			panic(fmt.Sprint("reference cannot encode the expected list: ", gerr, gpan))
		}
		st.add("reference_encodings_compared", 1)
		enc, err, epan := encK(p.Interface())
		if err != nil || epan != "" {
			bad("encode-fails", fmt.Sprintf("EncodeToBytes: %v %s", err, epan))
			return
		}
		_, reason := canonical(want)
		st.dist("distinct_nontrivial", fmt.Sprintf("optskip|%s|%d|%d|%s", sh.class, len(sh.roles), cut, reason))
		if !bytes.Equal(enc, want) {
			bad("encoding-differs-from-reference", fmt.Sprintf("lib/rlp encodes %x, the reference encodes the list of the first %d non-skipped fields (all up to the last non-zero optional one) as %x", enc, cut, want))
		}
		// the value of a skipped field must not influence the bytes
		clean := pattern
		for i, r := range sh.roles {
			if r == 's' || r == 'u' {
				clean &^= 1 << uint(i)
			}
		}
		if clean != pattern {
			e0, _, _ := encK(osValue(sh, clean).Interface())
			if !bytes.Equal(e0, enc) {
				bad("ignored-field-influences-encoding", fmt.Sprintf("encodes to %x, but to %x when the skipped (unexported / rlp:\"-\") fields are zero", enc, e0))
			}
		}
		// by value (not addressable) as well
		if e2, err, _ := encK(v.Interface()); err != nil || !bytes.Equal(e2, enc) {
			bad("encoder-entrypoints-disagree", fmt.Sprintf("EncodeToBytes(value) = %x err=%v, EncodeToBytes(&value) = %x", e2, err, enc))
		}
		// round trip from the expected (canonical) bytes
		out := reflect.New(sh.t)
		if derr, dpan := decK(want, out.Interface()); derr != nil || dpan != "" {
			bad("decode-of-encoding-fails", fmt.Sprintf("DecodeBytes(%x): %v %s", want, derr, dpan))
			return
		}
		if !sameValue(v, out.Elem()) {
			bad("roundtrip-value-differs", fmt.Sprintf("Decode(%x) = %s, encoded value %s", want, show(out.Elem()), show(v)))
		}
		if e3, err, _ := encK(out.Interface()); err != nil || !bytes.Equal(e3, want) {
			bad("reencode-differs", fmt.Sprintf("Encode(Decode(%x)) = %x err=%v", want, e3, err))
		}
	})
	if pan != "" {
		bad("panic", pan)
	}
}
