package main

// Part (b): generated Go types to container depth 2 over 11 leaf kinds, every value with leaf values from
// boundary sets: encoder emits canonical RLP, byte-identical to the reference, Decode(Encode(v)) == v
// (modulo the documented nil normalisation, see norm), re-encoding identical, all encoder entry points
// (EncodeToBytes of value and of pointer, Encode to io.Writer, EncodeToReader with short reads) agree.

import (
	"bytes"
	"fmt"
	"io"
	"math/big"
	"reflect"

	krlp "github.com/kardiachain/go-kardia/lib/rlp"
)

type gtyp struct {
	name   string
	leaf   string
	kind   string // leaf | slice | array | ptr | struct2 | structnil | structopt | structtail
	depth  int
	kt, gt reflect.Type // gt == nil: the reference cannot handle the type (optional tag)
	vals   []reflect.Value
	small  []reflect.Value
	zeroRT bool // the zero value of the type survives a round trip (up to norm)
	// emptyZero: the zero value encodes as the empty string / empty list that a nil pointer to the type
	// encodes as, so a nil pointer decodes back to (a pointer to) the zero value
	emptyZero bool
	optTop    bool // top-level struct with optional fields: encoding = list truncated after the last non-zero optional field
}

func rv(x interface{}) reflect.Value { return reflect.ValueOf(x) }

func fill(n int, b byte) []byte { return bytes.Repeat([]byte{b}, n) }

func bigPow(bits uint, delta int64) *big.Int {
	x := new(big.Int).Lsh(big.NewInt(1), bits)
	return x.Add(x, big.NewInt(delta))
}

var ifaceT = reflect.TypeOf((*interface{})(nil)).Elem()

func ifaceVal(x interface{}) reflect.Value {
	v := reflect.New(ifaceT).Elem()
	if x != nil {
		v.Set(reflect.ValueOf(x))
	}
	return v
}

func leaves(thorough bool) []*gtyp {
	var out []*gtyp
	mk := func(name string, kt, gt reflect.Type, zeroRT bool, nsmall int, vals ...reflect.Value) {
		g := &gtyp{name: name, leaf: name, kind: "leaf", kt: kt, gt: gt, vals: vals, zeroRT: zeroRT}
		// byte arrays of length >= 1 have a non-empty zero encoding; a nil **big.Int encodes as an empty list
		g.emptyZero = zeroRT && !(kt.Kind() == reflect.Array && kt.Len() > 0) && kt != bigPtrT
		g.small = vals[:nsmall]
		out = append(out, g)
	}
	same := func(name string, zeroRT bool, nsmall int, vals ...interface{}) {
		var vs []reflect.Value
		for _, v := range vals {
			vs = append(vs, rv(v))
		}
		mk(name, vs[0].Type(), vs[0].Type(), zeroRT, nsmall, vs...)
	}
	u := func(x uint64) interface{} { return x }
	same("uint64", true, 4, u(0), u(0x7f), u(0x80), u(0x100), u(1), u(0xff), u(0xffff), u(0x10000), u(0xffffff), u(1<<24), u(1<<32-1), u(1<<32),
		u(1<<40), u(1<<48), u(1<<56-1), u(1<<56), u(1<<63), u(1<<64-1))
	same("uint16", true, 3, uint16(0), uint16(0x80), uint16(0x100), uint16(1), uint16(0x7f), uint16(0xff), uint16(0xffff))
	bigs := []*big.Int{big.NewInt(0), big.NewInt(0x80), bigPow(64, 0), big.NewInt(1), big.NewInt(0x7f), big.NewInt(0xff), big.NewInt(0x100),
		bigPow(64, -1), bigPow(64, 1), bigPow(72, -1), bigPow(120, 0), bigPow(128, -1), bigPow(128, 0), bigPow(128, 1), bigPow(192, 5), bigPow(255, 0),
		bigPow(256, -1), bigPow(256, 0), bigPow(8*55, -1), bigPow(8*55, 0), bigPow(8*56, 0), bigPow(8*255, -1), bigPow(8*255, 0)}
	var bp, bv []interface{}
	for _, b := range bigs {
		bp = append(bp, b)
		bv = append(bv, *b)
	}
	bp = append(bp, (*big.Int)(nil))
	same("*big.Int", true, 3, bp...)
	same("big.Int", true, 3, bv...)
	byteVals := []interface{}{[]byte{}, []byte{0x7f}, []byte{0x80, 0x01}, fill(53, 0xaa), []byte(nil), []byte{0}, []byte{1}, []byte{0x80}, []byte{0xff}, []byte{0, 0},
		fill(2, 1), fill(54, 0xab), fill(55, 0xac), fill(56, 0xad), fill(57, 0), fill(255, 0xae), fill(256, 0xaf), fill(65535, 0xb0), fill(65536, 0xb1)}
	if thorough {
		byteVals = append(byteVals, fill(1<<24-1, 0xb2), fill(1<<24, 0xb3))
	}
	same("[]byte", true, 4, byteVals...)
	same("string", true, 3, "", "\x7f", "\x80", "\x00", "a", "ab", string(fill(55, 'x')), string(fill(56, 'y')), string(fill(256, 'z')))
	same("bool", true, 2, false, true)
	same("[1]byte", true, 3, [1]byte{0}, [1]byte{0x7f}, [1]byte{0x80}, [1]byte{1}, [1]byte{0xff})
	same("[3]byte", true, 3, [3]byte{}, [3]byte{0, 0, 1}, [3]byte{0xff, 0xff, 0xff}, [3]byte{0x7f, 0, 0})
	same("[0]byte", true, 1, [0]byte{})
	same("[56]byte", true, 2, [56]byte{}, [56]byte{0: 0xff, 55: 1})
	mk("interface{}", ifaceT, ifaceT, true, 3, ifaceVal(nil), ifaceVal([]byte{0x7f}), ifaceVal([]interface{}{[]byte{1}}), ifaceVal([]byte{}), ifaceVal([]byte{0x80}),
		ifaceVal(fill(56, 7)), ifaceVal([]interface{}{}), ifaceVal([]interface{}{[]interface{}{}, []byte{0x80, 0x81}}))
	raws := [][]byte{{0x80}, {0x01}, {0xc0}, {0x81, 0x80}, {0xc2, 0x01, 0x80}, append([]byte{0xb8, 56}, fill(56, 9)...), append([]byte{0xf8, 56}, fill(56, 0x80)...)}
	var rk []reflect.Value
	for _, b := range raws {
		rk = append(rk, rv(krlp.RawValue(b)))
	}
	mk("RawValue", rawKT, rawGT, false, 3, rk...)
	return out
}

func last(vs []reflect.Value) reflect.Value { return vs[len(vs)-1] }

func mkSlice(t reflect.Type, elems ...reflect.Value) reflect.Value {
	s := reflect.MakeSlice(t, 0, len(elems))
	return reflect.Append(s, elems...)
}

func cSlice(e *gtyp, thorough bool) *gtyp {
	g := &gtyp{name: "[]" + e.name, leaf: e.leaf, kind: "slice", depth: e.depth + 1, kt: reflect.SliceOf(e.kt), zeroRT: true, emptyZero: true}
	if e.gt != nil {
		g.gt = reflect.SliceOf(e.gt)
	}
	g.vals = append(g.vals, mkSlice(g.kt), reflect.Zero(g.kt))
	for _, v := range e.vals {
		g.vals = append(g.vals, mkSlice(g.kt, v))
	}
	for _, a := range e.small {
		for _, b := range e.small {
			g.vals = append(g.vals, mkSlice(g.kt, a, b))
			if thorough {
				for _, c := range e.small {
					g.vals = append(g.vals, mkSlice(g.kt, a, b, c))
				}
			}
		}
	}
	g.small = []reflect.Value{mkSlice(g.kt), mkSlice(g.kt, e.small[0]), mkSlice(g.kt, last(e.small), e.small[0])}
	return g
}

func cArray(e *gtyp) *gtyp {
	g := &gtyp{name: "[2]" + e.name, leaf: e.leaf, kind: "array", depth: e.depth + 1, kt: reflect.ArrayOf(2, e.kt), zeroRT: e.zeroRT}
	if e.gt != nil {
		g.gt = reflect.ArrayOf(2, e.gt)
	}
	mk := func(a, b reflect.Value) reflect.Value {
		v := reflect.New(g.kt).Elem()
		v.Index(0).Set(a)
		v.Index(1).Set(b)
		return v
	}
	for _, a := range e.small {
		for _, b := range e.small {
			g.vals = append(g.vals, mk(a, b))
		}
	}
	for _, v := range e.vals {
		g.vals = append(g.vals, mk(v, e.small[0]), mk(last(e.small), v))
	}
	g.small = g.vals[:imin(3, len(g.vals))]
	return g
}

func ptrTo(v reflect.Value) reflect.Value {
	p := reflect.New(v.Type())
	p.Elem().Set(v)
	return p
}

func cPtr(e *gtyp) *gtyp {
	if e.kt == bigValT {
		return nil // *big.Int is a leaf of its own
	}
	g := &gtyp{name: "*" + e.name, leaf: e.leaf, kind: "ptr", depth: e.depth + 1, kt: reflect.PtrTo(e.kt)}
	if e.gt != nil {
		g.gt = reflect.PtrTo(e.gt)
	}
	// A nil pointer encodes as the empty string/list; that decodes back to (a pointer to) the zero value
	// only when the zero value of the element type has that empty encoding. Nil pointers to structs,
	// arrays and pointers are documented as lossy and are not generated.
	nilOK := e.emptyZero
	g.zeroRT = nilOK
	g.small = []reflect.Value{ptrTo(e.small[0]), ptrTo(last(e.small))}
	if nilOK {
		g.vals = append(g.vals, reflect.Zero(g.kt))
		g.small = append([]reflect.Value{reflect.Zero(g.kt)}, g.small...)
	}
	for _, v := range e.vals {
		g.vals = append(g.vals, ptrTo(v))
	}
	return g
}

func mkStruct(t reflect.Type, fields ...reflect.Value) reflect.Value {
	v := reflect.New(t).Elem()
	for i, f := range fields {
		v.Field(i).Set(f)
	}
	return v
}

var u64T = reflect.TypeOf(uint64(0))

func structOf(e *gtyp, fields func(et reflect.Type) []reflect.StructField) (kt, gt reflect.Type) {
	kt = reflect.StructOf(fields(e.kt))
	if e.gt != nil {
		gt = reflect.StructOf(fields(e.gt))
	}
	return
}

func cStruct2(e *gtyp) *gtyp {
	g := &gtyp{name: "struct{" + e.name + ";uint64}", leaf: e.leaf, kind: "struct2", depth: e.depth + 1, zeroRT: e.zeroRT}
	g.kt, g.gt = structOf(e, func(et reflect.Type) []reflect.StructField {
		return []reflect.StructField{{Name: "A", Type: et}, {Name: "B", Type: u64T}}
	})
	for _, s := range e.small {
		for _, u := range []uint64{0, 0x80} {
			g.vals = append(g.vals, mkStruct(g.kt, s, rv(u)))
		}
	}
	for _, v := range e.vals {
		g.vals = append(g.vals, mkStruct(g.kt, v, rv(uint64(1))))
	}
	g.small = []reflect.Value{g.vals[0], g.vals[1], g.vals[len(e.small)*2-1]}
	return g
}

func cStructNil(e *gtyp, tag string) *gtyp {
	// pointer-typed field with a nil tag. Pointers to pointers, RawValue and interface{} under a nil tag have
	// no consistent empty value (upstream behaviour) and are not generated.
	if e.kind == "ptr" || e.leaf == "RawValue" && e.kind == "leaf" || e.kt == ifaceT || e.kt == bigPtrT {
		return nil
	}
	g := &gtyp{name: "struct{*" + e.name + " `" + tag + "`;uint64}", leaf: e.leaf, kind: "structnil", depth: e.depth + 1, zeroRT: true}
	g.kt, g.gt = structOf(e, func(et reflect.Type) []reflect.StructField {
		return []reflect.StructField{{Name: "A", Type: reflect.PtrTo(et), Tag: reflect.StructTag(`rlp:"` + tag + `"`)}, {Name: "B", Type: u64T}}
	})
	pt := g.kt.Field(0).Type
	g.vals = append(g.vals, mkStruct(g.kt, reflect.Zero(pt), rv(uint64(0))), mkStruct(g.kt, reflect.Zero(pt), rv(uint64(0x80))))
	for _, v := range e.vals {
		if tag != "nil" && isEmptyNorm(norm(v, false)) {
			continue // a non-nil pointer to an empty value of the other kind is rejected on decode by design
		}
		g.vals = append(g.vals, mkStruct(g.kt, ptrTo(v), rv(uint64(1))))
	}
	g.small = []reflect.Value{g.vals[0], last(g.vals)}
	return g
}

func cStructOpt(e *gtyp) *gtyp {
	if !e.zeroRT {
		return nil
	}
	g := &gtyp{name: "struct{uint64;" + e.name + " `optional`;" + e.name + " `optional`}", leaf: e.leaf, kind: "structopt", depth: e.depth + 1, zeroRT: true, optTop: true}
	g.kt = reflect.StructOf([]reflect.StructField{{Name: "A", Type: u64T}, {Name: "B", Type: e.kt, Tag: `rlp:"optional"`}, {Name: "C", Type: e.kt, Tag: `rlp:"optional"`}})
	zero := reflect.Zero(e.kt)
	one := rv(uint64(1))
	g.vals = append(g.vals, mkStruct(g.kt, one, zero, zero))
	for _, a := range e.small {
		for _, b := range e.small {
			g.vals = append(g.vals, mkStruct(g.kt, one, a, b))
		}
	}
	for _, v := range e.vals {
		g.vals = append(g.vals, mkStruct(g.kt, one, v, zero), mkStruct(g.kt, one, zero, v))
	}
	g.small = []reflect.Value{g.vals[0], g.vals[1], last(g.vals)}
	return g
}

func cStructTail(e *gtyp, thorough bool) *gtyp {
	sl := cSlice(e, thorough)
	g := &gtyp{name: "struct{uint64;[]" + e.name + " `tail`}", leaf: e.leaf, kind: "structtail", depth: e.depth + 1, zeroRT: true}
	g.kt, g.gt = structOf(e, func(et reflect.Type) []reflect.StructField {
		return []reflect.StructField{{Name: "A", Type: u64T}, {Name: "T", Type: reflect.SliceOf(et), Tag: `rlp:"tail"`}}
	})
	for _, v := range sl.vals {
		g.vals = append(g.vals, mkStruct(g.kt, rv(uint64(0x80)), v))
	}
	g.small = []reflect.Value{mkStruct(g.kt, rv(uint64(0)), sl.small[0]), mkStruct(g.kt, rv(uint64(1)), sl.small[2])}
	return g
}

func containers(e *gtyp, thorough bool) []*gtyp {
	var out []*gtyp
	for _, g := range []*gtyp{cSlice(e, thorough), cArray(e), cPtr(e), cStruct2(e), cStructNil(e, "nil"), cStructNil(e, "nilString"), cStructNil(e, "nilList"),
		cStructOpt(e), cStructTail(e, thorough)} {
		if g != nil {
			out = append(out, g)
		}
	}
	return out
}

func genTypes(thorough bool) []*gtyp {
	l0 := leaves(thorough)
	all := append([]*gtyp{}, l0...)
	for _, e := range l0 {
		all = append(all, containers(e, thorough)...)
	}
	// depth 2 is built over depth-1 types whose leaves use the quick value sets (no 16 MiB strings), and
	// whose value lists are trimmed in the quick tier (all of the first six plus every third value)
	for _, e0 := range leaves(false) {
		for _, e := range containers(e0, false) {
			trim := *e
			trim.vals = nil
			for i, v := range e.vals {
				if i < 6 || i%3 == 0 || thorough {
					trim.vals = append(trim.vals, v)
				}
			}
			all = append(all, containers(&trim, thorough)...)
		}
	}
	return all
}

// ---- evaluation of one value ----

// show renders the normal form of a value as printable ASCII.
func show(v reflect.Value) string {
	q := fmt.Sprintf("%+q", trunc(fmt.Sprintf("%v", norm(v, false)), 120))
	return q[1 : len(q)-1]
}

type shortWriter struct{ buf bytes.Buffer }

func (w *shortWriter) Write(p []byte) (int, error) { return w.buf.Write(p) }

func evalValue(g *gtyp, idx int, cx *ctx) {
	v := g.vals[idx]
	st := cx.st
	st.add("evaluations", 1)
	st.add("values", 1)
	rc := replayCase{Part: "values", Type: g.name, Index: idx}
	bad := func(oracle, what string) {
		cx.col.add("C16|part=values|leaf="+g.leaf+"|oracle="+oracle, fmt.Sprintf("type %s value #%d (%s): %s", g.name, idx, show(v), what), rc)
	}
	pv := ptrTo(v)
	enc, err, pan := encK(pv.Interface())
	if pan != "" || err != nil {
		bad("encode-fails", fmt.Sprintf("EncodeToBytes: err=%v panic=%s", err, pan))
		return
	}
	it, reason := canonical(enc)
	st.dist("distinct_nontrivial", "values|"+g.kind+"|"+g.leaf+"|"+preasonOrShape(it, reason))
	st.dist("value_types", g.name)
	if reason != "" {
		bad("encoder-emits-noncanonical", fmt.Sprintf("encoding %s is not canonical RLP: %s", trunc(hx(enc), 80), reason))
		return
	}
	if why := conform(g.kt, it, ftag{}); why != "" {
		bad("encoder-emits-nonconforming", fmt.Sprintf("encoding %s is not an image of the type: %s", trunc(hx(enc), 80), why))
	}
	if it.list && krlp.ListSize(uint64(len(it.content))) != uint64(len(enc)) {
		bad("listsize-disagrees", fmt.Sprintf("ListSize(%d) = %d, encoding has %d bytes", len(it.content), krlp.ListSize(uint64(len(it.content))), len(enc)))
	}
	// other encoder entry points
	pan = guard(func() {
		if v.Kind() != reflect.Interface || !v.IsNil() {
			if e2, err := krlp.EncodeToBytes(v.Interface()); err != nil || !bytes.Equal(e2, enc) {
				bad("encoder-entrypoints-disagree", fmt.Sprintf("EncodeToBytes(value) = %s err=%v, EncodeToBytes(&value) = %s", trunc(hx(e2), 60), err, trunc(hx(enc), 60)))
			}
		}
		var w shortWriter
		if err := krlp.Encode(&w, pv.Interface()); err != nil || !bytes.Equal(w.buf.Bytes(), enc) {
			bad("encoder-entrypoints-disagree", fmt.Sprintf("Encode(io.Writer) = %s err=%v", trunc(hx(w.buf.Bytes()), 60), err))
		}
		size, rd, err := krlp.EncodeToReader(pv.Interface())
		if err != nil || size != len(enc) {
			bad("encoder-entrypoints-disagree", fmt.Sprintf("EncodeToReader size=%d err=%v, want %d", size, err, len(enc)))
		} else {
			var got []byte
			chunk := make([]byte, 7)
			for {
				n, err := rd.Read(chunk)
				got = append(got, chunk[:n]...)
				if err == io.EOF {
					break
				}
				if err != nil || len(got) > len(enc)+8 {
					break
				}
			}
			if !bytes.Equal(got, enc) {
				bad("encoder-entrypoints-disagree", fmt.Sprintf("EncodeToReader yields %s", trunc(hx(got), 60)))
			}
		}
		if isUintKind(v.Kind()) {
			if a := krlp.AppendUint64(nil, v.Uint()); !bytes.Equal(a, enc) || krlp.IntSize(v.Uint()) != len(enc) {
				bad("encoder-entrypoints-disagree", fmt.Sprintf("AppendUint64 = %x IntSize = %d, encoding %x", a, krlp.IntSize(v.Uint()), enc))
			}
			if x, rest, err := krlp.SplitUint64(enc); err != nil || x != v.Uint() || len(rest) != 0 {
				bad("splituint64-disagrees", fmt.Sprintf("SplitUint64(%x) = %d err=%v", enc, x, err))
			}
		}
	})
	if pan != "" {
		bad("panic", "encoder entry point panics: "+pan)
	}
	// reference encoding
	if g.gt != nil {
		gvv := conv(v, g.gt)
		genc, gerr, gpan := encG(ptrTo(gvv).Interface())
		if gerr != nil || gpan != "" {
			st.add("info_reference_encode_fails", 1)
		} else {
			st.add("reference_encodings_compared", 1)
			if !bytes.Equal(genc, enc) {
				bad("encoding-differs-from-reference", fmt.Sprintf("lib/rlp %s, go-ethereum %s", trunc(hx(enc), 80), trunc(hx(genc), 80)))
			}
		}
	}
	if g.optTop {
		// expected: the list [A, B, C] cut after the last non-zero optional field, each element as the reference encodes it
		n := 3
		for n > 1 && v.Field(n-1).IsZero() {
			n--
		}
		var elems []interface{}
		for i := 0; i < n; i++ {
			f := v.Field(i)
			if f.Type() != u64T && g.gt == nil && containsRaw(f.Type(), map[reflect.Type]bool{}) {
				elems = nil
				break
			}
			elems = append(elems, ptrTo(f).Interface())
		}
		if elems != nil && !hasOptional(g.kt.Field(1).Type, map[reflect.Type]bool{}) {
			genc, gerr, gpan := encG(elems)
			if gerr == nil && gpan == "" {
				st.add("reference_encodings_compared", 1)
				if !bytes.Equal(genc, enc) {
					bad("optional-encoding-differs-from-reference", fmt.Sprintf("lib/rlp %s, reference list of the first %d fields %s", trunc(hx(enc), 80), n, trunc(hx(genc), 80)))
				}
			}
		}
	}
	// decode
	out := reflect.New(g.kt)
	derr, dpan := decK(enc, out.Interface())
	if dpan != "" || derr != nil {
		bad("decode-of-encoding-fails", fmt.Sprintf("DecodeBytes(%s): err=%v panic=%s", trunc(hx(enc), 80), derr, dpan))
		return
	}
	if !sameValue(v, out.Elem()) {
		bad("roundtrip-value-differs", fmt.Sprintf("Decode(Encode(v)) = %s", show(out.Elem())))
	}
	if e3, err, pan := encK(out.Interface()); err != nil || pan != "" || !bytes.Equal(e3, enc) {
		bad("reencode-differs", fmt.Sprintf("Encode(Decode(Encode(v))) = %s, Encode(v) = %s", trunc(hx(e3), 60), trunc(hx(enc), 60)))
	}
	// Stream over a plain reader with the exact limit
	out2 := reflect.New(g.kt)
	var serr error
	if span := guard(func() { serr = krlp.NewStream(&plainReader{b: enc}, uint64(len(enc))).Decode(out2.Interface()) }); span != "" || serr != nil || !sameValue(v, out2.Elem()) {
		bad("stream-decode-differs", fmt.Sprintf("Stream.Decode over a plain reader: err=%v panic=%s", serr, span))
	}
	if g.gt != nil && !(g.depth > 0 && hasByteArray1(g.gt, map[reflect.Type]bool{})) {
		gout := reflect.New(g.gt)
		if gerr, gpan := decG(enc, gout.Interface()); gerr == nil && gpan == "" {
			if !reflect.DeepEqual(norm(gout.Elem(), false), norm(out.Elem(), false)) {
				bad("decoded-value-differs-from-reference", "the reference decodes the encoding to a different value")
			}
		} else {
			st.add("disagreements_checked", 1)
			st.add("disagreements_reference_strict", 1)
			st.dist("disagreement_classes", "values|"+g.kind+"|"+g.leaf)
		}
	}
	if len(st.samples) < 1 && g.depth == 2 && len(enc) > 4 && len(enc) < 40 && idx%5 == 3 {
		st.samples = append(st.samples, map[string]interface{}{"part": "values", "type": g.name, "value": show(v), "encoding": hx(enc), "outcome": "round trip and reference identical"})
	}
}

// negative big integers must be refused by the encoder (no panic, no silent encoding)
func evalNegativeBig(cx *ctx) {
	for i, x := range []interface{}{big.NewInt(-1), *big.NewInt(-1), []*big.Int{big.NewInt(1), big.NewInt(-5)}, struct{ A *big.Int }{bigPow(70, 0).Neg(bigPow(70, 0))}} {
		cx.st.add("evaluations", 1)
		b, err, pan := encK(x)
		if pan != "" || err == nil {
			cx.col.add("C16|part=values|leaf=*big.Int|oracle=negative-encoded", fmt.Sprintf("negative big.Int case %d: encoding %x err=%v panic=%s", i, b, err, pan),
				replayCase{Part: "negbig", Index: i})
		}
	}
}
