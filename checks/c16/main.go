// C16 — RLP encoding is canonical, round-trips, and rejects everything else.
//
// Engine E3 (small-scope exhaustive enumeration) + differential against go-ethereum v1.9.15's rlp:
//
//	(a) every byte string of length <= 5 (quick) / <= 6 (thorough) over a 16-byte boundary alphabet, decoded
//	    into 22 target types through DecodeBytes, two Stream variants, the reference, and the untyped API;
//	    plus headers claiming 56 .. 2^64-1 bytes over short inputs with an allocation bound;
//	(b) every value of ~900 generated Go types (container depth <= 2 over 13 leaf kinds) with boundary leaves;
//	(c) transactions, receipts (consensus + storage), block infos, logs, state accounts (full + slim), headers.
//
//	(a4) size-class boundaries of the scalar decoders (scalars.go): payload lengths around 1, 8/9, 20, 32/33,
//	    55/56, 64/65, 255/256 x payload contents (canonical, leading zeros) x header forms x host position
//	    x scalar target type; plus chain types carrying zero-padded integers.
//
//	(a5) the Stream protocol (streamapi.go): every operation sequence up to length 4/5 on boundary and faulty
//	    headers against a reference model; (c2) header mutations of chain types with hand-written decoders
//	    (chainhdr.go).
//
//	(race pass) racepass.go + RACEPASS: the same binary built with -race runs 8 goroutines on private values
//	    (cold type cache, pools, scratch buffers) before the main run; a detector report is a violation.
//
// Oracles: an independent canonical-form recogniser (recog.go) + type conformance model decide what must be
// accepted and what must be rejected; accept => Encode(Decode(s)) == s; Decode(Encode(v)) == v; encodings
// byte-identical to the reference; no panic; bounded allocation. See DESIGN.md section 4 / C16.
package main

import (
	"encoding/hex"
	"fmt"
	"os"
	"strings"
	"sync"
	"time"

	"verif/mc/par"
	"verif/mc/report"
)

var r *report.Run

func imin(a, b int) int {
	if a < b {
		return a
	}
	return b
}

var (
	sampleMu   sync.Mutex
	samplesBy  = map[string][]interface{}{}
	sampleCaps = map[string]int{"strings": 2, "alloc": 1, "values": 1, "chain": 1, "scalars": 1}
)

func keepSamples(st *stats) {
	sampleMu.Lock()
	for _, x := range st.samples {
		p, _ := x.(map[string]interface{})["part"].(string)
		if len(samplesBy[p]) < sampleCaps[p] {
			samplesBy[p] = append(samplesBy[p], x)
		}
	}
	sampleMu.Unlock()
	st.samples = nil
}

func finishChunk(st *stats) {
	keepSamples(st)
	st.flush()
}

func maxLen() int {
	if r.Thorough() {
		return 6
	}
	return 5
}

func runStrings() {
	L := maxLen()
	const chunk = 1024
	// extended-header space first (small), then the base space in ascending length
	fams := extFamilies(r.Thorough())
	etotal := extTotal(fams)
	eChunks := (etotal + chunk - 1) / chunk
	done := par.For(eChunks, 1, r.Expired, func(ci int64) {
		st := newStats()
		cx := &ctx{col: viol, st: st, fullLen: L}
		buf := make([]byte, 8)
		hi := imin64((ci+1)*chunk, etotal)
		for idx := ci * chunk; idx < hi; idx++ {
			evalAllTargets(extStringAt(fams, idx, buf), cx, "strings")
		}
		st.add("strings_extended_headers", hi-ci*chunk)
		finishChunk(st)
	})
	r.Set("strings_extended_space", etotal)
	if done < eChunks {
		r.NotExhaustive(fmt.Sprintf("deadline: %d of %d extended-header string chunks completed", done, eChunks))
	}
	var total int64
	for k := 0; k <= L; k++ {
		total += pow16(k)
	}
	nChunks := (total + chunk - 1) / chunk
	done = par.For(nChunks, 1, r.Expired, func(ci int64) {
		st := newStats()
		cx := &ctx{col: viol, st: st, fullLen: L}
		buf := make([]byte, 8)
		hi := imin64((ci+1)*chunk, total)
		for idx := ci * chunk; idx < hi; idx++ {
			s := stringAt(idx, buf)
			evalAllTargets(s, cx, "strings")
			_, reason := canonical(s)
			if reason == "" {
				reason = "canonical"
			}
			st.dist("recogniser_verdicts", reason)
		}
		finishChunk(st)
	})
	r.Set("strings_max_length", L)
	r.Set("strings_space", total)
	if done < nChunks {
		r.NotExhaustive(fmt.Sprintf("deadline: %d of %d string chunks (ascending length) completed", done, nChunks))
	}
}

func runValues(gts []*gtyp) {
	type job struct {
		g *gtyp
		i int
	}
	var jobs []job
	for _, g := range gts {
		for i := range g.vals {
			jobs = append(jobs, job{g, i})
		}
	}
	const chunk = 64
	n := int64(len(jobs))
	nChunks := (n + chunk - 1) / chunk
	done := par.For(nChunks, 1, r.Expired, func(ci int64) {
		st := newStats()
		cx := &ctx{col: viol, st: st}
		for k := ci * chunk; k < (ci+1)*chunk && k < n; k++ {
			j := jobs[k]
			if pan := guard(func() { evalValue(j.g, j.i, cx) }); pan != "" {
				viol.add("C16|part=values|leaf="+j.g.leaf+"|oracle=panic", "evaluation panics: "+pan, replayCase{Part: "values", Type: j.g.name, Index: j.i})
			}
		}
		finishChunk(st)
	})
	r.Set("generated_types", len(gts))
	if done < nChunks {
		r.NotExhaustive(fmt.Sprintf("deadline: %d of %d value chunks completed", done, nChunks))
	}
	st := newStats()
	evalNegativeBig(&ctx{col: viol, st: st})
	finishChunk(st)
}

func runChain() {
	for _, fam := range chainFamilies() {
		fam := fam
		const chunk = 256
		nChunks := (fam.n + chunk - 1) / chunk
		done := par.For(nChunks, 1, r.Expired, func(ci int64) {
			st := newStats()
			cx := &ctx{col: viol, st: st}
			for k := ci * chunk; k < (ci+1)*chunk && k < fam.n; k++ {
				fam.run(k, cx)
			}
			st.add("chain_"+strings.ToLower(fam.family), (imin64((ci+1)*chunk, fam.n) - ci*chunk))
			finishChunk(st)
		})
		if done < nChunks {
			r.NotExhaustive(fmt.Sprintf("deadline: %d of %d %s chunks completed", done, nChunks, fam.family))
		}
	}
}

func imin64(a, b int64) int64 {
	if a < b {
		return a
	}
	return b
}

// rerun re-executes one stored case and returns the violation signatures it produces.
func rerun(rc replayCase, gts func() []*gtyp) []string {
	var out []string
	for _, v := range rerunCases(rc, gts) {
		out = append(out, v.sig)
	}
	return out
}

func rerunCases(rc replayCase, gts func() []*gtyp) []*vcase {
	col := &collector{m: map[string]*vcase{}}
	cx := &ctx{col: col, st: newStats()}
	switch rc.Part {
	case "strings", "alloc", "scalars":
		s, err := hex.DecodeString(rc.Input)
		if err != nil {
			panic(err)
		}
		if rc.Type == "untyped-api" {
			if rc.Part == "alloc" {
				for _, in := range hugeInputs() {
					if hx(in.b) == rc.Input {
						allocUntyped(in, cx)
					}
				}
			}
			evalUntyped(s, cx, rc.Part)
			break
		}
		for _, t := range allTargets() {
			if t.name != rc.Type {
				continue
			}
			safe := true
			if rc.Part == "alloc" {
				for _, in := range hugeInputs() {
					if hx(in.b) == rc.Input {
						safe = allocOne(t, in, cx)
						break
					}
				}
			}
			if safe {
				it, reason := canonical(s)
				evalString(t, s, it, reason, cx, rc.Part)
			}
		}
	case "optskip":
		shapes := osShapes()
		if i := rc.Index >> 12; i < len(shapes) {
			evalOptSkip(shapes[i], i, rc.Index&4095, cx)
		}
	case "stream":
		ins := streamInputs()
		if rc.Index < len(ins) && hx(ins[rc.Index].b) == rc.Input {
			evalStreamSeq(ins[rc.Index], rc.Index, parseSeq(rc.Type), cx)
		}
	case "chainhdr":
		cases := chainHeaderCases()
		if rc.Index < len(cases) {
			evalChainHeaderCase(cases[rc.Index], rc.Index, cx)
		}
	case "values":
		for _, g := range gts() {
			if g.name == rc.Type && rc.Index < len(g.vals) {
				evalValue(g, rc.Index, cx)
				break
			}
		}
	case "negbig":
		evalNegativeBig(cx)
	case "chain":
		for _, fam := range chainFamilies() {
			if fam.family == rc.Type || (rc.Type == "ReceiptForStorage" || rc.Type == "BlockInfo") && fam.family == "Receipt" {
				fam.run(int64(rc.Index), cx)
			}
		}
	}
	return col.sorted()
}

func main() {
	r = report.New("C16", "exploration")
	if os.Getenv("C16_RACE_PASS") == "1" {
		runRacePass() // free-running pass under the race detector (racepass.go); exits
	}
	initTargets()
	initScalarTargets()
	thorough := r.Thorough()
	var gtCache []*gtyp
	gts := func() []*gtyp {
		if gtCache == nil {
			gtCache = genTypes(thorough)
		}
		return gtCache
	}

	if r.ReplayPath != "" {
		var rc replayCase
		if err := r.LoadReplay(&rc); err != nil {
			fmt.Println("cannot load replay file:", err)
			os.Exit(2)
		}
		if strings.Contains(rc.Note, "tier=thorough") {
			thorough = true
		}
		got := rerunCases(rc, gts)
		fmt.Printf("replay part=%s type=%s input=%s index=%d: %d violation signature(s)\n", rc.Part, rc.Type, rc.Input, rc.Index, len(got))
		for _, v := range got {
			fmt.Printf("  observed: %s\n            %s\n", v.sig, trunc(v.what, 600))
		}
		if len(got) > 0 {
			fmt.Printf("VIOLATION property=C16 replay=%s (still reproduces)\n", r.ReplayPath)
			os.Exit(1)
		}
		fmt.Println("OK property=C16 replay: the stored case no longer violates")
		os.Exit(0)
	}

	// 1. huge-size headers with the allocation bound: single-threaded, before anything else runs
	{
		st := newStats()
		allocSection(&ctx{col: viol, st: st})
		r.Max("max_alloc_delta_bytes", st.n["max_alloc_delta_bytes"])
		delete(st.n, "max_alloc_delta_bytes")
		finishChunk(st)
	}
	t0 := time.Now()
	phase := func(name string) {
		r.Set("phase_seconds_"+name, float64(int(time.Since(t0).Seconds()*10))/10)
		if os.Getenv("VERIF_C16_DEBUG") != "" {
			fmt.Fprintf(os.Stderr, "phase %s done after %.1fs evaluations=%d violations=%d\n", name, time.Since(t0).Seconds(), r.Get("evaluations"), len(viol.sorted()))
		}
	}
	phase("alloc")
	// 1b. header mutations at the payload-length boundaries
	{
		ins := boundaryInputs()
		par.For(int64(len(ins)), 8, nil, func(i int64) {
			st := newStats()
			evalAllTargets(ins[i], &ctx{col: viol, st: st}, "strings")
			_, reason := canonical(ins[i])
			if reason == "" {
				st.add("boundary_header_inputs_canonical", 1)
			}
			st.add("boundary_header_inputs", 1)
			finishChunk(st)
		})
	}
	phase("boundary")
	// 1c. size-class boundaries of the scalar decoders (scalars.go)
	{
		scalarThorough = thorough
		ins := scalarInputs()
		par.For(int64(len(ins)), 16, nil, func(i int64) {
			st := newStats()
			evalScalarInput(ins[i], &ctx{col: viol, st: st})
			finishChunk(st)
		})
	}
	phase("scalars")
	// 1c'. structs with skipped fields around optional fields (optskip.go)
	{
		shapes := osShapes()
		type job struct{ sh, pattern int }
		var jobs []job
		for i, sh := range shapes {
			for p := 0; p < 1<<uint(len(sh.roles)); p++ {
				jobs = append(jobs, job{i, p})
			}
		}
		const chunk = 64
		n := int64(len(jobs))
		par.For((n+chunk-1)/chunk, 1, nil, func(ci int64) {
			st := newStats()
			cx := &ctx{col: viol, st: st}
			for k := ci * chunk; k < imin64((ci+1)*chunk, n); k++ {
				evalOptSkip(shapes[jobs[k].sh], jobs[k].sh, jobs[k].pattern, cx)
			}
			finishChunk(st)
		})
		r.Set("optional_skipped_shapes", len(shapes))
	}
	phase("optskip")
	// 1d. the Stream protocol: every operation sequence up to length L on boundary / faulty headers (streamapi.go)
	{
		ins := streamInputs()
		L := 4
		if thorough {
			L = 5
		}
		per := streamSeqCount(L)
		total := per * int64(len(ins))
		const chunk = 512
		par.For((total+chunk-1)/chunk, 1, nil, func(ci int64) {
			st := newStats()
			cx := &ctx{col: viol, st: st}
			for j := ci * chunk; j < imin64((ci+1)*chunk, total); j++ {
				i := int(j / per)
				evalStreamSeq(ins[i], i, streamSeqOf(j%per), cx)
			}
			finishChunk(st)
		})
		r.Set("stream_inputs", len(ins))
		r.Set("stream_max_sequence_length", L)
	}
	phase("stream")
	// 1e. header mutations of the chain types with hand-written decoders (chainhdr.go)
	{
		cases := chainHeaderCases()
		par.For(int64(len(cases)), 4, nil, func(i int64) {
			st := newStats()
			evalChainHeaderCase(cases[i], int(i), &ctx{col: viol, st: st})
			finishChunk(st)
		})
	}
	phase("chainhdr")
	// 2. generated values and 3. chain types: small, always completed
	runValues(gts())
	phase("values")
	runChain()
	phase("chain")
	// 4. exhaustive strings (ascending length; the only part the internal deadline can cut short)
	if r.Quick() {
		r.SetDeadline(45 * time.Second)
	} else {
		r.SetDeadline(13 * time.Minute)
	}
	runStrings()
	phase("strings")

	// The verdict of run.sh's -race pass. A reported data race in the code under test means that the parallel
	// phases of this run worked on top of that race: an observation made there need not reproduce single-threaded.
	// Such an observation is recorded, not reported, and the run is decided by the data-race violation (mc/report).
	rp := os.Getenv("VERIF_RACE_PASS")
	raceReported := strings.HasPrefix(rp, "race:")
	if strings.HasPrefix(rp, "failed:1:") {
		// the pass's second oracle fired before the detector did
		out, _ := os.ReadFile(strings.TrimPrefix(rp, "failed:1:"))
		var lines []string
		for _, l := range strings.Split(string(out), "\n") {
			if strings.HasPrefix(l, "RESULT DIFFERS") && len(lines) < 5 {
				lines = append(lines, l)
			}
		}
		if len(lines) > 0 {
			raceReported = true
			r.Violation("C16|oracle=concurrent-result-differs-from-single-threaded-value",
				"goroutines encoding / decoding private values got results that differ from the values computed single-threaded (shared mutable state inside lib/rlp): "+strings.Join(lines, " | "),
				map[string]interface{}{"kind": "race-pass", "output": lines})
		}
	}
	// emit violations (smallest case per signature), each re-executed 5 times
	tierNote := "tier=" + r.Tier()
	for _, v := range viol.sorted() {
		v := v
		v.rc.Note = tierNote
		v.rc.Count = v.count
		again := func() string {
			for _, s := range rerun(v.rc, gts) {
				if s == v.sig {
					return s
				}
			}
			return "(not reproduced)"
		}
		if raceReported {
			ok := true
			for i := 0; i < 5 && ok; i++ {
				ok = again() == v.sig
			}
			if !ok {
				r.Add("observations_under_reported_race_not_reproduced", 1)
				continue
			}
			r.Violation(v.sig, fmt.Sprintf("%s [%d occurrence(s)]", v.what, v.count), v.rc)
			continue
		}
		r.ViolationConfirmed(v.sig, fmt.Sprintf("%s [%d occurrence(s)]", v.what, v.count), v.rc, again)
	}
	for _, p := range []string{"strings", "scalars", "alloc", "values", "chain"} {
		for _, x := range samplesBy[p] {
			r.Sample(x)
		}
	}

	r.Set("rule", "E3: (a) ALL byte strings of length <= L (quick 5, thorough 6) over the alphabet {00,01,7f,80,81,82,b7,b8,b9,bf,c0,c1,c2,f7,f8,ff}, plus ALL strings made of a header "+
		"83/c3 followed by 2, 3 or 4 alphabet bytes and 84/c4 followed by 4 (thorough: 84/c4 + 3..5, 85/c5 + 5) alphabet bytes, each decoded into "+
		fmt.Sprint(len(targets))+" target types via DecodeBytes, Stream over bytes.Reader, Stream over a plain reader with input limit, the go-ethereum v1.9.15 reference, and fed to "+
		"Split/SplitString/SplitList/SplitUint64/CountValues/NewListIterator/Stream.Kind/Raw/List/Bytes; plus string/list headers claiming 56..2^64-1 bytes (minimal and leading-zero size, "+
		"top level and nested, with and without payload) with a TotalAlloc bound of 1 MiB per decode; every header form (short, long with 1..8 size bytes, claimed size -1/0/+1) "+
		"over string and list payloads of 0,1,2,3,54,55,56,57,255,256 bytes, top level and nested; (a4) size classes of the scalar decoders: payload lengths 0,1,2,3,4,5,7,8,9,10,19,20,21,31,32,33,34,54..58,63..66,255,256,257 "+
		"(thorough adds 6,11,15..17,23..25,30,35,40,47..49,96,127..129,254,258,1024,65535..65537) x contents {min-of-length, max, high bit, leading zero, two leading zeros, all zero; "+
		"every single-byte class} x header forms {short, long with 1,2,3,8 (thorough 1..8) size bytes, bare byte} x claimed size {n-1, n, n+1} x host {top level, struct field, "+
		"list element (first/second), optional pointer field, tail slice} x scalar target {*big.Int, big.Int, uint64, uint, uint32, uint16, uint8, bool, []byte, string, "+
		"[N]byte for N in 0,1,2,8,9,20,32,33,55,56,57,64,256}; and transactions / state accounts / block infos whose big-integer fields are sent with leading zero bytes "+
		"padded to 2..256 bytes (must be rejected; unpadded control accepted); (a5) the Stream protocol: EVERY sequence of at most 4 (thorough 5) operations over {Kind, List, ListEnd, Bytes, Uint, Raw, Decode(RawValue), Bool} "+
		"on a fresh NewStream / NewListStream for ~980 inputs (strings of 0,1,2,9,55,56 bytes and lists of 0,1,4,3,55,56 payload bytes in every header form with <= 3 size bytes and claimed size -1/0/+1, "+
		"truncated headers, empty input; at top level, as only / middle / nested list element, through NewListStream, and as an element larger than its enclosing list), each step compared with a "+
		"reference model of the protocol built on the recogniser (Kind() idempotent in kind, size and error; no operation succeeds on a faulty header; EOL exactly at list end; outputs of well-formed values); "+
		"(c2) chain types with hand-written decoders (Transaction, Log, LogForStorage incl. legacy format, Receipt, ReceiptForStorage, BlockInfo) and StateAccount / Header: every other header form of the outer list, "+
		"the first inner list and the first non-empty inner string of small (payload < 56 where the type allows) and ordinary instances, alone, inside a list and behind a canonical sibling: accepted => canonical and re-encoding identical; (b) every value of every generated type (13 leaf kinds x 9 container constructors, "+
		"depth <= 2) with leaf values from boundary sets; (c) full boundary products of transaction / receipt / block-info / log / state-account / header fields. "+
		"(b2) structs whose RLP field list differs from their Go field list: 0..1 required and 1..3 optional fields with a skipped field (rlp:\"-\" and unexported, reflect.StructOf) in every subset of the gaps "+
		"(before all, between required and optional, between optionals, after all), uint64 fields and a mixed family ([]byte, *uint64, string optionals, []byte skipped), plus six fixed Go types, over EVERY zero/non-zero pattern of all fields "+
		"including the skipped ones: encoding == reference encoding of the non-skipped fields cut after the last non-zero optional, skipped fields do not influence the bytes, round trip and re-encoding; "+
		"(race pass, run.sh RACEPASS) before this run the checker built with -race ran 8 goroutines behind a barrier on private values: first use of cold types (shared by all goroutines and 3 fresh reflect.StructOf types each, "+
		"nil/nilList/nilString/optional/tail tags, RawValue, chain types; expected bytes from the reference) and 250 fixed iterations of big integers of every size class, every encoder entry point incl. EncodeToReader "+
		"(full, piecewise past EOF, abandoned), DecodeBytes, NewStream/NewListStream sequences, Split/CountValues/iterator and the chain types, each result compared with its single-threaded value; verdict in race_pass. "+
		"distinct_nontrivial counts distinct (target type or API, accept-or-rejection-class, recogniser verdict or structural shape of the input) triples for (a), "+
		"distinct (constructor, leaf kind, shape of the encoding) for (b) and distinct field-choice vectors for (c); a case is non-trivial because every one executes the real codec.")
	r.Assume(
		"canonical form is judged by the recogniser in recog.go, written from the RLP definition; go-ethereum v1.9.15 rlp and Keccak are the independent reference for encodings and hashes",
		"accept/reject disagreements with the v1.9.15 reference are counted (disagreements_checked) and decided by the recogniser + type conformance model, never by the reference",
		"documented nil normalisation is not a round-trip failure: a nil pointer (no nil tag) == pointer to the zero value, nil slice == empty slice, nil interface == empty list, "+
			"pointer with a nil tag to an empty value == nil; nil pointers to structs/arrays/pointers, empty RawValue and non-nil pointers to an empty value of the other kind under nilString/nilList are documented as lossy and not generated",
		"RawValue positions are documented as unvalidated: content of a RawValue (and a single byte < 0x80 wrapped as a string decoded as RawValue / Stream.Raw) is not required to be canonical; counted as info_rawvalue_unvalidated_content_accepted",
		"unlimited Streams (rlp.Decode on a reader without input limit) are documented as vulnerable to huge size headers and are not exercised with them",
		"Header: Time has no RLP representation (time.Time has no exported fields); every other field is compared, and the hash comparison is made on whatever Time decoding returns",
		"Stream protocol model: predicts only what a caller may rely on; no prediction after an operation that failed having consumed content, after ListEnd with a looked-at value, "+
			"and for an element that overruns its list by at most its own header length (Stream.Kind compares with the list limit taken before the header is read: upstream behaviour, such input can never be decoded to completion; counted as info_stream_element_overrun_within_header_slack)",
		"allocation bound: runtime.MemStats.TotalAlloc delta of one DecodeBytes + one limited Stream.Decode in a single-threaded section must stay below 1 MiB for inputs of at most 22 bytes")
	r.Exhaustive(true)

	// vacuity guards (those about the string enumeration are meaningless when the deadline cut it short; that
	// is reported as not exhaustive instead)
	if !r.Expired() {
		for _, t := range targets {
			r.Require(r.Get("accepted_"+t.name) > 0, "target type "+t.name+" accepted no enumerated string")
		}
		r.Require(r.DistinctCount("recogniser_verdicts") >= 8, "the enumerated strings do not exercise the recogniser's rejection reasons")
	}
	r.Require(r.Get("strings") > 1000, "fewer than 1000 strings enumerated")
	r.Require(r.Get("boundary_header_inputs_canonical") >= 20 && r.Get("boundary_header_inputs") > 500, "boundary header mutation inputs missing")
	nScalarTargets := map[string]bool{}
	for _, h := range scalarHosts {
		for _, t := range scalarTargets[h.name] {
			nScalarTargets[t.name] = true
		}
	}
	r.Set("scalar_targets", len(nScalarTargets))
	if os.Getenv("VERIF_C16_DEBUG") != "" {
		fmt.Fprintf(os.Stderr, "scalar targets %d accepting %d rejecting %d\n", len(nScalarTargets), r.DistinctCount("scalar_targets_accepting"), r.DistinctCount("scalar_targets_rejecting"))
	}
	r.Require(r.DistinctCount("scalar_targets_accepting") == len(nScalarTargets) && r.DistinctCount("scalar_targets_rejecting") == len(nScalarTargets),
		"some scalar target type never accepted or never rejected a size-class input")
	r.Require(r.Get("scalar_inputs_canonical") >= 100 && r.Get("scalar_inputs") > 5000 && r.DistinctCount("scalar_size_classes") > 1000, "scalar size-class inputs missing")
	r.Require(r.Get("noncanonical_int_chain_cases") > 50, "non-canonical integers in chain types not exercised")
	r.Require(r.Get("stream_sequences") > 500000 && r.Get("stream_ops_predicted") > r.Get("stream_ops")/2, "stream protocol phase did not run or the model predicted less than half of the operations")
	r.Require(r.Get("chain_header_mutation_cases") > 1000 && r.Get("chain_header_mutation_controls_accepted") >= 60, "chain header mutation phase missing or its canonical controls are not accepted")
	r.Require(r.Get("optional_skipped_cases") > 10000, "fewer than 10000 optional/skipped-field struct cases")
	r.Require(r.Get("alloc_measurements") > 1000, "fewer than 1000 allocation measurements")
	r.Require(r.Get("values") > 5000, "fewer than 5000 generated values")
	r.Require(r.Get("reference_encodings_compared") > 5000, "fewer than 5000 encodings compared with the reference")
	r.Require(r.Get("chain_cases") > 10000, "fewer than 10000 chain-type cases")
	r.Require(r.Get("reference_verdicts_compared") > 100000, "fewer than 100000 accept/reject verdicts compared with the reference")
	r.Require(r.Get("reference_values_compared") > 1000, "fewer than 1000 decoded values compared with the reference")
	r.Add("disagreements_checked", 0) // make the measured count explicit even when it is zero
	r.Finish()
}
