package main

// Part (c): RLP-encoded chain types with boundary field values. The reference encoding is produced by
// go-ethereum's rlp from mirror structs written here (plain field lists, no custom encoders); hashes are
// recomputed with go-ethereum's Keccak.

import (
	"bytes"
	"fmt"
	"math/big"
	"reflect"
	"time"

	gcrypto "github.com/ethereum/go-ethereum/crypto"
	"github.com/kardiachain/go-kardia/lib/common"
	krlp "github.com/kardiachain/go-kardia/lib/rlp"
	"github.com/kardiachain/go-kardia/types"

	"verif/mc/par"
)

type chainCase struct {
	family string
	n      int64
	run    func(i int64, cx *ctx)
}

func chainBad(cx *ctx, family, class, oracle, what string, i int64) {
	cx.col.add(sigOf(family, class, oracle), what, replayCase{Part: "chain", Type: family, Index: int(i)})
}

func addrOf(b byte, n int) common.Address {
	var a common.Address
	for i := len(a) - n; i < len(a); i++ {
		a[i] = b
	}
	return a
}

func hashFill(b byte) common.Hash {
	var h common.Hash
	for i := range h {
		h[i] = b
	}
	return h
}

// ---- transactions ----

type txMirror struct {
	Nonce   uint64
	Price   *big.Int
	Gas     uint64
	To      *[20]byte `rlp:"nil"`
	Amount  *big.Int
	Payload []byte
	V, R, S *big.Int
}

var (
	two256m1 = bigPow(256, -1)
	txNonce  = []uint64{0, 1, 0x7f, 0x80, 1<<64 - 1}
	txPrice  = []*big.Int{big.NewInt(0), big.NewInt(1), two256m1}
	txGas    = []uint64{0, 21000, 1<<64 - 1}
	txTo     = []*common.Address{nil, {}, func() *common.Address { a := addrOf(0xff, 20); return &a }(), func() *common.Address { a := addrOf(1, 1); return &a }()}
	txAmount = []*big.Int{big.NewInt(0), big.NewInt(0x80), two256m1}
	txData   = [][]byte{nil, {0}, {0x7f}, {0x80}, fill(55, 1), fill(56, 2), fill(1024, 3)}
	txV      = []*big.Int{big.NewInt(0), big.NewInt(27), big.NewInt(28), big.NewInt(37), bigPow(64, 0)}
	txRS     = []*big.Int{big.NewInt(0), big.NewInt(1), two256m1}
	txRadix  = []int{len(txNonce), len(txPrice), len(txGas), len(txTo), len(txAmount), len(txData), len(txV), len(txRS), len(txRS)}
)

func txCase(i int64, cx *ctx) {
	d := make([]int, len(txRadix))
	par.MixedRadix(i, txRadix, d)
	m := txMirror{Nonce: txNonce[d[0]], Price: txPrice[d[1]], Gas: txGas[d[2]], Amount: txAmount[d[4]], Payload: txData[d[5]], V: txV[d[6]], R: txRS[d[7]], S: txRS[d[8]]}
	to := txTo[d[3]]
	class := "boundary-fields"
	if to != nil {
		a := [20]byte(*to)
		m.To = &a
	} else {
		class = "boundary-fields-create"
	}
	cx.st.add("evaluations", 1)
	cx.st.add("chain_cases", 1)
	cx.st.dist("distinct_nontrivial", fmt.Sprintf("tx|to%d|data%d|v%d|n%d", d[3], d[5], d[6], d[0]))
	bad := func(oracle, what string) { chainBad(cx, "Transaction", class, oracle, what, i) }
	ref, err, _ := encG(&m)
	if err != nil {
		panic(err)
	}
	pan := guard(func() {
		tx := new(types.Transaction)
		if err := krlp.DecodeBytes(ref, tx); err != nil {
			bad("canonical-rejected", fmt.Sprintf("reference encoding %s of a transaction is rejected: %v", trunc(hx(ref), 80), err))
			return
		}
		V, R, S := tx.RawSignatureValues()
		okTo := (tx.To() == nil) == (to == nil) && (to == nil || *tx.To() == *to)
		if tx.Nonce() != m.Nonce || tx.GasPrice().Cmp(m.Price) != 0 || tx.Gas() != m.Gas || !okTo || tx.Value().Cmp(m.Amount) != 0 ||
			!bytes.Equal(tx.Data(), m.Payload) || V.Cmp(m.V) != 0 || R.Cmp(m.R) != 0 || S.Cmp(m.S) != 0 {
			bad("fields-preserved", "decoded transaction fields differ from the encoded ones")
		}
		enc, err := krlp.EncodeToBytes(tx)
		if err != nil || !bytes.Equal(enc, ref) {
			bad("reencode-differs", fmt.Sprintf("re-encoding %s err=%v differs from the input %s", trunc(hx(enc), 80), err, trunc(hx(ref), 80)))
		}
		if mb, err := tx.MarshalBinary(); err != nil || !bytes.Equal(mb, ref) {
			bad("reencode-differs", "MarshalBinary differs from the RLP encoding")
		}
		want := common.BytesToHash(gcrypto.Keccak256(ref))
		if tx.Hash() != want {
			bad("hash-preserved", fmt.Sprintf("Hash() = %x, Keccak256(encoding) = %x", tx.Hash(), want))
		}
		if uint64(tx.Size()) != uint64(len(ref)) {
			bad("size", fmt.Sprintf("Size() after decoding = %d, encoding has %d bytes", uint64(tx.Size()), len(ref)))
		}
		// constructed transaction with the same fields (V=R=S=0 by construction)
		if d[6] == 0 && d[7] == 0 && d[8] == 0 {
			var tx2 *types.Transaction
			if to == nil {
				tx2 = types.NewContractCreation(m.Nonce, m.Amount, m.Gas, m.Price, m.Payload)
			} else {
				tx2 = types.NewTransaction(m.Nonce, *to, m.Amount, m.Gas, m.Price, m.Payload)
			}
			e2, err := krlp.EncodeToBytes(tx2)
			if err != nil || !bytes.Equal(e2, ref) {
				bad("encoding-differs-from-reference", fmt.Sprintf("constructed transaction encodes to %s, reference %s", trunc(hx(e2), 80), trunc(hx(ref), 80)))
			}
			if tx2.Hash() != tx.Hash() || uint64(tx2.Size()) != uint64(len(ref)) {
				bad("hash-preserved", "constructed and decoded transaction differ in hash or size")
			}
		}
		// inside a list
		if d[0] == 1 {
			lst, err := krlp.EncodeToBytes(types.Transactions{tx, tx})
			var back types.Transactions
			if err != nil || krlp.DecodeBytes(lst, &back) != nil || len(back) != 2 || back[0].Hash() != want || back[1].Hash() != want ||
				!bytes.Equal(types.Transactions{tx}.GetRlp(0), ref) {
				bad("hash-preserved", "transaction list does not round-trip")
			}
		}
	})
	if pan != "" {
		bad("panic", pan)
	}
	if len(cx.st.samples) < 1 && i%977 == 500 {
		cx.st.samples = append(cx.st.samples, map[string]interface{}{"part": "chain", "type": "Transaction", "encoding": trunc(hx(ref), 120), "outcome": "fields, hash, size, re-encoding preserved"})
	}
}

// ---- logs, receipts, block info ----

type logMirror struct {
	Address [20]byte
	Topics  [][32]byte
	Data    []byte
}

type legacyLogMirror struct {
	Address     [20]byte
	Topics      [][32]byte
	Data        []byte
	BlockHeight uint64
	TxHash      [32]byte
	TxIndex     uint
	BlockHash   [32]byte
	Index       uint
}

type receiptMirror struct {
	PostStateOrStatus []byte
	CumulativeGasUsed uint64
	Bloom             [256]byte
	Logs              []*logMirror
}

type receiptStorageMirror struct {
	PostStateOrStatus []byte
	CumulativeGasUsed uint64
	Bloom             [256]byte
	TxHash            [32]byte
	ContractAddress   [20]byte
	Logs              []*logMirror
	GasUsed           uint64
}

type blockInfoMirror struct {
	GasUsed  uint64
	Rewards  *big.Int
	Receipts []*receiptStorageMirror
	Bloom    [256]byte
}

func mkLogs(k int) []*types.Log {
	l0 := &types.Log{Address: addrOf(0, 0), Topics: nil, Data: nil}
	l1 := &types.Log{Address: addrOf(0xff, 20), Topics: []common.Hash{hashFill(0), hashFill(0xff)}, Data: fill(56, 0x7f),
		BlockHeight: 9, TxHash: hashFill(3), TxIndex: 2, BlockHash: hashFill(4), Index: 5}
	l2 := &types.Log{Address: addrOf(1, 1), Topics: []common.Hash{hashFill(0x80)}, Data: []byte{0x00}}
	switch k {
	case 0:
		return nil
	case 1:
		return []*types.Log{l0}
	case 2:
		return []*types.Log{l1}
	}
	return []*types.Log{l2, l1, l0}
}

func mirrorLogs(ls []*types.Log) []*logMirror {
	var out []*logMirror
	for _, l := range ls {
		m := &logMirror{Address: l.Address, Data: l.Data}
		for _, t := range l.Topics {
			m.Topics = append(m.Topics, t)
		}
		out = append(out, m)
	}
	return out
}

func sameLogs(a, b []*types.Log) bool {
	if len(a) != len(b) {
		return false
	}
	for i := range a {
		if a[i].Address != b[i].Address || !bytes.Equal(a[i].Data, b[i].Data) || len(a[i].Topics) != len(b[i].Topics) {
			return false
		}
		for j := range a[i].Topics {
			if a[i].Topics[j] != b[i].Topics[j] {
				return false
			}
		}
	}
	return true
}

var (
	rcStatus = []struct {
		post   []byte
		status uint64
	}{{nil, 0}, {nil, 1}, {fill(32, 0), 0}, {fill(32, 0xff), 0}, {append([]byte{1}, fill(31, 0)...), 0}}
	rcGas   = []uint64{0, 1, 0x7f, 0x80, 1<<64 - 1}
	rcBloom = []types.Bloom{{}, types.BytesToBloom(fill(256, 0xff)), types.BytesToBloom([]byte{1})}
	rcRadix = []int{len(rcStatus), len(rcGas), len(rcBloom), 4, 3}
)

func statusBytes(post []byte, status uint64) []byte {
	if len(post) > 0 {
		return post
	}
	if status == 0 {
		return []byte{}
	}
	return []byte{1}
}

func mkReceipt(d []int) *types.Receipt {
	rc := &types.Receipt{PostState: rcStatus[d[0]].post, Status: rcStatus[d[0]].status, CumulativeGasUsed: rcGas[d[1]], Bloom: rcBloom[d[2]], Logs: mkLogs(d[3])}
	switch d[4] {
	case 1:
		rc.TxHash, rc.ContractAddress, rc.GasUsed = hashFill(0xff), addrOf(0xff, 20), 1<<64-1
	case 2:
		rc.TxHash, rc.ContractAddress, rc.GasUsed = hashFill(1), addrOf(0x80, 1), 0x80
	}
	return rc
}

func sameConsensus(a, b *types.Receipt) bool {
	return bytes.Equal(statusBytes(a.PostState, a.Status), statusBytes(b.PostState, b.Status)) && a.CumulativeGasUsed == b.CumulativeGasUsed && a.Bloom == b.Bloom && sameLogs(a.Logs, b.Logs)
}

func storageMirror(rc *types.Receipt) *receiptStorageMirror {
	return &receiptStorageMirror{PostStateOrStatus: statusBytes(rc.PostState, rc.Status), CumulativeGasUsed: rc.CumulativeGasUsed, Bloom: rc.Bloom,
		TxHash: rc.TxHash, ContractAddress: rc.ContractAddress, Logs: mirrorLogs(rc.Logs), GasUsed: rc.GasUsed}
}

func receiptCase(i int64, cx *ctx) {
	d := make([]int, len(rcRadix))
	par.MixedRadix(i, rcRadix, d)
	rc := mkReceipt(d)
	cx.st.add("evaluations", 1)
	cx.st.add("chain_cases", 1)
	cx.st.dist("distinct_nontrivial", fmt.Sprintf("receipt|s%d|g%d|b%d|l%d|i%d", d[0], d[1], d[2], d[3], d[4]))
	class := fmt.Sprintf("status%d-logs%d", d[0], d[3])
	pan := guard(func() {
		// consensus encoding
		bad := func(oracle, what string) { chainBad(cx, "Receipt", class, oracle, what, i) }
		ref, err, _ := encG(&receiptMirror{statusBytes(rc.PostState, rc.Status), rc.CumulativeGasUsed, rc.Bloom, mirrorLogs(rc.Logs)})
		if err != nil {
			panic(err)
		}
		enc, err := krlp.EncodeToBytes(rc)
		if err != nil || !bytes.Equal(enc, ref) {
			bad("encoding-differs-from-reference", fmt.Sprintf("consensus encoding %s err=%v, reference %s", trunc(hx(enc), 60), err, trunc(hx(ref), 60)))
		}
		if g := (types.Receipts{rc}).GetRlp(0); !bytes.Equal(g, ref) {
			bad("encoding-differs-from-reference", "Receipts.GetRlp differs from the reference encoding")
		}
		back := new(types.Receipt)
		if err := krlp.DecodeBytes(ref, back); err != nil {
			bad("canonical-rejected", fmt.Sprintf("consensus encoding rejected: %v", err))
		} else {
			if !sameConsensus(rc, back) {
				bad("fields-preserved", "consensus fields differ after decode")
			}
			if e2, err := krlp.EncodeToBytes(back); err != nil || !bytes.Equal(e2, ref) {
				bad("hash-preserved", "consensus re-encoding (the receipt-trie leaf) differs after decode")
			}
		}
		// storage encoding
		bad = func(oracle, what string) { chainBad(cx, "ReceiptForStorage", class, oracle, what, i) }
		sref, err, _ := encG(storageMirror(rc))
		if err != nil {
			panic(err)
		}
		senc, err := krlp.EncodeToBytes((*types.ReceiptForStorage)(rc))
		if err != nil || !bytes.Equal(senc, sref) {
			bad("encoding-differs-from-reference", fmt.Sprintf("storage encoding %s err=%v, reference %s", trunc(hx(senc), 60), err, trunc(hx(sref), 60)))
		}
		var sback types.ReceiptForStorage
		if err := krlp.DecodeBytes(sref, &sback); err != nil {
			bad("canonical-rejected", fmt.Sprintf("storage encoding rejected: %v", err))
		} else {
			b := (*types.Receipt)(&sback)
			if !sameConsensus(rc, b) || b.TxHash != rc.TxHash || b.ContractAddress != rc.ContractAddress || b.GasUsed != rc.GasUsed {
				bad("fields-preserved", "stored receipt fields differ after decode")
			}
			if e2, err := krlp.EncodeToBytes(&sback); err != nil || !bytes.Equal(e2, sref) {
				bad("reencode-differs", "storage re-encoding differs after decode")
			}
		}
		// block info holding the receipt twice
		bad = func(oracle, what string) { chainBad(cx, "BlockInfo", class, oracle, what, i) }
		rewards := []*big.Int{nil, big.NewInt(0), two256m1}[d[1]%3]
		bi := &types.BlockInfo{GasUsed: rc.CumulativeGasUsed, Rewards: rewards, Receipts: types.Receipts{rc, rc}, Bloom: rc.Bloom}
		bref, err, _ := encG(&blockInfoMirror{bi.GasUsed, rewards, []*receiptStorageMirror{storageMirror(rc), storageMirror(rc)}, rc.Bloom})
		if err != nil {
			panic(err)
		}
		benc, err := krlp.EncodeToBytes(bi)
		if err != nil || !bytes.Equal(benc, bref) {
			bad("encoding-differs-from-reference", fmt.Sprintf("block info encoding %s err=%v, reference %s", trunc(hx(benc), 60), err, trunc(hx(bref), 60)))
		}
		var bback types.BlockInfo
		if err := krlp.DecodeBytes(bref, &bback); err != nil {
			bad("canonical-rejected", fmt.Sprintf("block info encoding rejected: %v", err))
		} else {
			rw := new(big.Int)
			if rewards != nil {
				rw = rewards
			}
			if bback.GasUsed != bi.GasUsed || bback.Rewards == nil || bback.Rewards.Cmp(rw) != 0 || bback.Bloom != bi.Bloom || len(bback.Receipts) != 2 ||
				!sameConsensus(rc, bback.Receipts[1]) || bback.Receipts[0].TxHash != rc.TxHash || bback.Receipts[0].GasUsed != rc.GasUsed {
				bad("fields-preserved", "block info fields differ after decode")
			}
			if e2, err := krlp.EncodeToBytes(&bback); err != nil || !bytes.Equal(e2, bref) {
				bad("reencode-differs", "block info re-encoding differs after decode")
			}
			if uint64(bi.Size()) != uint64(len(bref)) {
				bad("size", "BlockInfo.Size differs from the encoding length")
			}
		}
	})
	if pan != "" {
		chainBad(cx, "Receipt", class, "panic", pan, i)
	}
}

func logCase(i int64, cx *ctx) {
	cx.st.add("evaluations", 1)
	cx.st.add("chain_cases", 1)
	cx.st.dist("distinct_nontrivial", fmt.Sprintf("log|%d", i))
	ls := mkLogs(3)
	l := ls[i%3]
	bad := func(oracle, what string) { chainBad(cx, "Log", fmt.Sprintf("log%d", i%3), oracle, what, i) }
	pan := guard(func() {
		ref, _, _ := encG(mirrorLogs([]*types.Log{l})[0])
		for variant := 0; variant < 2; variant++ {
			var enc []byte
			var err error
			var back types.Log
			if variant == 0 {
				enc, err = krlp.EncodeToBytes(l)
				if err == nil {
					err = krlp.DecodeBytes(ref, &back)
				}
			} else {
				enc, err = krlp.EncodeToBytes((*types.LogForStorage)(l))
				var sb types.LogForStorage
				if err == nil {
					err = krlp.DecodeBytes(ref, &sb)
				}
				back = types.Log(sb)
			}
			if err != nil || !bytes.Equal(enc, ref) || !sameLogs([]*types.Log{l}, []*types.Log{&back}) {
				bad("roundtrip", fmt.Sprintf("log variant %d: err=%v encoding %s reference %s", variant, err, trunc(hx(enc), 60), trunc(hx(ref), 60)))
			}
		}
		// legacy storage format still decodes to the same consensus fields
		m := mirrorLogs([]*types.Log{l})[0]
		leg, _, _ := encG(&legacyLogMirror{m.Address, m.Topics, m.Data, l.BlockHeight, l.TxHash, l.TxIndex, l.BlockHash, l.Index})
		var sb types.LogForStorage
		if err := krlp.DecodeBytes(leg, &sb); err != nil || !sameLogs([]*types.Log{l}, []*types.Log{(*types.Log)(&sb)}) {
			bad("legacy-format", fmt.Sprintf("legacy stored log does not decode to the same fields: %v", err))
		}
	})
	if pan != "" {
		bad("panic", pan)
	}
}

// ---- state accounts ----

type accountMirror struct {
	Nonce    uint64
	Balance  *big.Int
	Root     [32]byte
	CodeHash []byte
}

type slimMirror struct {
	Nonce    uint64
	Balance  *big.Int
	Root     []byte
	CodeHash []byte
}

var (
	acNonce = []uint64{0, 1, 0x7f, 0x80, 0x100, 1<<64 - 1}
	acBal   = []*big.Int{big.NewInt(0), big.NewInt(1), big.NewInt(0x80), bigPow(64, 0), two256m1}
	acRoot  = []common.Hash{types.EmptyRootHash, {}, hashFill(0xff), hashFill(0x01)}
	acCode  = [][]byte{types.EmptyCodeHash[:], fill(32, 0xff), fill(32, 0), append([]byte{0}, fill(31, 1)...)}
	acRadix = []int{len(acNonce), len(acBal), len(acRoot), len(acCode)}
)

func accountCase(i int64, cx *ctx) {
	d := make([]int, len(acRadix))
	par.MixedRadix(i, acRadix, d)
	a := types.StateAccount{Nonce: acNonce[d[0]], Balance: acBal[d[1]], Root: acRoot[d[2]], CodeHash: acCode[d[3]]}
	cx.st.add("evaluations", 1)
	cx.st.add("chain_cases", 1)
	cx.st.dist("distinct_nontrivial", fmt.Sprintf("account|%d|%d|%d|%d", d[0], d[1], d[2], d[3]))
	class := fmt.Sprintf("root%d-code%d", d[2], d[3])
	bad := func(oracle, what string) { chainBad(cx, "StateAccount", class, oracle, what, i) }
	pan := guard(func() {
		ref, err, _ := encG(&accountMirror{a.Nonce, a.Balance, a.Root, a.CodeHash})
		if err != nil {
			panic(err)
		}
		enc, err := krlp.EncodeToBytes(&a)
		if err != nil || !bytes.Equal(enc, ref) {
			bad("encoding-differs-from-reference", fmt.Sprintf("account encoding %x err=%v, reference %x", enc, err, ref))
		}
		var back types.StateAccount
		if err := krlp.DecodeBytes(ref, &back); err != nil {
			bad("canonical-rejected", fmt.Sprintf("account encoding rejected: %v", err))
			return
		}
		if back.Nonce != a.Nonce || back.Balance.Cmp(a.Balance) != 0 || back.Root != a.Root || !bytes.Equal(back.CodeHash, a.CodeHash) {
			bad("fields-preserved", "account fields differ after decode")
		}
		if e2, err := krlp.EncodeToBytes(&back); err != nil || !bytes.Equal(e2, ref) {
			bad("hash-preserved", "account re-encoding (the state-trie leaf) differs after decode")
		}
		// slim format
		sm := slimMirror{Nonce: a.Nonce, Balance: a.Balance}
		if a.Root != types.EmptyRootHash {
			sm.Root = a.Root[:]
		}
		if !bytes.Equal(a.CodeHash, types.EmptyCodeHash[:]) {
			sm.CodeHash = a.CodeHash
		}
		sref, _, _ := encG(&sm)
		slim := types.SlimAccountRLP(a)
		if !bytes.Equal(slim, sref) {
			bad("slim-encoding-differs-from-reference", fmt.Sprintf("slim %x reference %x", slim, sref))
		}
		full, err := types.FullAccount(slim)
		if err != nil || full.Nonce != a.Nonce || full.Balance.Cmp(a.Balance) != 0 || full.Root != a.Root || !bytes.Equal(full.CodeHash, a.CodeHash) {
			bad("slim-roundtrip", fmt.Sprintf("FullAccount(SlimAccountRLP(a)) differs from a: err=%v", err))
		}
		if fr, err := types.FullAccountRLP(slim); err != nil || !bytes.Equal(fr, ref) {
			bad("slim-roundtrip", "FullAccountRLP(SlimAccountRLP(a)) differs from the consensus encoding")
		}
	})
	if pan != "" {
		bad("panic", pan)
	}
}

// ---- headers ----

type headerMirror struct {
	Height      uint64
	Time        struct{}
	NumTxs      uint64
	GasLimit    uint64
	LastBlockID struct {
		Hash        [32]byte
		PartsHeader struct {
			Total uint32
			Hash  [32]byte
		}
	}
	ProposerAddress    [20]byte
	LastCommitHash     [32]byte
	TxHash             [32]byte
	ValidatorsHash     [32]byte
	NextValidatorsHash [32]byte
	ConsensusHash      [32]byte
	AppHash            [32]byte
	EvidenceHash       [32]byte
}

var (
	hdHeight = []uint64{0, 1, 0x80, 1<<64 - 1}
	hdTime   = []time.Time{{}, time.Unix(0, 0).UTC(), time.Date(2021, 3, 4, 5, 6, 7, 8, time.UTC)}
	hdNum    = []uint64{0, 0x7f, 0x80}
	hdGas    = []uint64{0, 1<<64 - 1}
	hdTotal  = []uint32{0, 1, 1<<32 - 1}
	hdFill   = []byte{0, 0xff, 0x01}
	hdRadix  = []int{len(hdHeight), len(hdTime), len(hdNum), len(hdGas), len(hdTotal), len(hdFill)}
)

func headerCase(i int64, cx *ctx) {
	d := make([]int, len(hdRadix))
	par.MixedRadix(i, hdRadix, d)
	f := hdFill[d[5]]
	h := &types.Header{Height: hdHeight[d[0]], Time: hdTime[d[1]], NumTxs: hdNum[d[2]], GasLimit: hdGas[d[3]],
		LastBlockID:     types.BlockID{Hash: hashFill(f), PartsHeader: types.PartSetHeader{Total: hdTotal[d[4]], Hash: hashFill(f ^ 0x80)}},
		ProposerAddress: addrOf(f, 20), LastCommitHash: hashFill(f), TxHash: hashFill(f ^ 1), ValidatorsHash: hashFill(f ^ 2), NextValidatorsHash: hashFill(f ^ 3),
		ConsensusHash: hashFill(f ^ 4), AppHash: hashFill(f ^ 5), EvidenceHash: hashFill(f ^ 6)}
	cx.st.add("evaluations", 1)
	cx.st.add("chain_cases", 1)
	cx.st.dist("distinct_nontrivial", fmt.Sprintf("header|%v", d))
	class := "zero-time"
	if !h.Time.IsZero() {
		class = "nonzero-time"
	}
	bad := func(oracle, what string) { chainBad(cx, "Header", class, oracle, what, i) }
	pan := guard(func() {
		var m headerMirror
		m.Height, m.NumTxs, m.GasLimit = h.Height, h.NumTxs, h.GasLimit
		m.LastBlockID.Hash, m.LastBlockID.PartsHeader.Total, m.LastBlockID.PartsHeader.Hash = h.LastBlockID.Hash, h.LastBlockID.PartsHeader.Total, h.LastBlockID.PartsHeader.Hash
		m.ProposerAddress, m.LastCommitHash, m.TxHash, m.ValidatorsHash = h.ProposerAddress, h.LastCommitHash, h.TxHash, h.ValidatorsHash
		m.NextValidatorsHash, m.ConsensusHash, m.AppHash, m.EvidenceHash = h.NextValidatorsHash, h.ConsensusHash, h.AppHash, h.EvidenceHash
		ref, err, _ := encG(&m)
		if err != nil {
			panic(err)
		}
		enc, err := krlp.EncodeToBytes(h) // generated encoder (gen_header_rlp.go)
		if err != nil || !bytes.Equal(enc, ref) {
			bad("encoding-differs-from-reference", fmt.Sprintf("generated header encoding %s err=%v, reference %s", trunc(hx(enc), 60), err, trunc(hx(ref), 60)))
		}
		if _, why := canonical(enc); why != "" {
			bad("encoder-emits-noncanonical", why)
		}
		var back types.Header
		if err := krlp.DecodeBytes(enc, &back); err != nil {
			bad("canonical-rejected", fmt.Sprintf("header encoding rejected: %v", err))
			return
		}
		cmp := *h
		cmp.Time = back.Time // the RLP form of Header has no time (time.Time has no exported field): compared separately below
		if !reflect.DeepEqual(cmp, back) {
			bad("fields-preserved", "header fields (other than Time) differ after decode")
		}
		if e2, err := krlp.EncodeToBytes(&back); err != nil || !bytes.Equal(e2, enc) {
			bad("reencode-differs", "header re-encoding differs after decode")
		}
		if !back.Time.Equal(h.Time) {
			cx.st.add("header_time_lost", 1)
		}
		if back.Hash() != h.Hash() {
			bad("hash-preserved", fmt.Sprintf("header %d: Hash() is %x before and %x after an RLP encode/decode; Time before %v, after %v", i, h.Hash(), back.Hash(), h.Time, back.Time))
		}
	})
	if pan != "" {
		bad("panic", pan)
	}
}

// ---- non-canonical integers inside chain types ----

// The integer fields of transactions, accounts and block infos, sent as a string with leading zero bytes
// whose total payload length sits around the decoder's size classes. Every padded form must be rejected
// (it would be a second wire form of the same transaction / account, same hash); the unpadded control
// must be accepted.

type txRawMirror struct {
	Nonce   uint64
	Price   []byte
	Gas     uint64
	To      []byte
	Amount  []byte
	Payload []byte
	V, R, S []byte
}

type accountRawMirror struct {
	Nonce    uint64
	Balance  []byte
	Root     [32]byte
	CodeHash []byte
}

type blockInfoRawMirror struct {
	GasUsed  uint64
	Rewards  []byte
	Receipts []*receiptStorageMirror
	Bloom    [256]byte
}

var (
	ncFields = []string{"tx.Price", "tx.Amount", "tx.V", "tx.R", "tx.S", "account.Balance", "blockinfo.Rewards"}
	ncTotals = []int{0, 2, 8, 9, 31, 32, 33, 34, 55, 56, 57, 65, 256} // total payload length after padding; 0 = unpadded control
	ncValues = [][]byte{{0xff}, fill(32, 0xab), fill(31, 0xff), fill(8, 0x80)}
	ncRadix  = []int{len(ncFields), len(ncTotals), len(ncValues)}
)

func noncanonIntCase(i int64, cx *ctx) {
	d := make([]int, len(ncRadix))
	par.MixedRadix(i, ncRadix, d)
	field, total, val := ncFields[d[0]], ncTotals[d[1]], ncValues[d[2]]
	if total != 0 && total <= len(val) {
		return // cannot pad this value to that length
	}
	x := val
	if total != 0 {
		x = append(make([]byte, total-len(val)), val...)
	}
	cx.st.add("evaluations", 1)
	cx.st.add("chain_cases", 1)
	cx.st.add("noncanonical_int_chain_cases", 1)
	cx.st.dist("distinct_nontrivial", fmt.Sprintf("ncint|%s|%d|%d", field, total, len(val)))
	one := []byte{1}
	var enc []byte
	var dst interface{}
	family := "Transaction"
	switch {
	case field[:3] == "tx.":
		m := txRawMirror{Nonce: 1, Price: one, Gas: 21000, To: fill(20, 0x11), Amount: one, Payload: []byte{1, 2}, V: []byte{27}, R: one, S: one}
		switch field {
		case "tx.Price":
			m.Price = x
		case "tx.Amount":
			m.Amount = x
		case "tx.V":
			m.V = x
		case "tx.R":
			m.R = x
		case "tx.S":
			m.S = x
		}
		enc, _, _ = encG(&m)
		dst = new(types.Transaction)
	case field == "account.Balance":
		family = "StateAccount"
		enc, _, _ = encG(&accountRawMirror{Nonce: 1, Balance: x, Root: types.EmptyRootHash, CodeHash: types.EmptyCodeHash[:]})
		dst = new(types.StateAccount)
	default:
		family = "BlockInfo"
		enc, _, _ = encG(&blockInfoRawMirror{GasUsed: 1, Rewards: x})
		dst = new(types.BlockInfo)
	}
	err, pan := decK(enc, dst)
	rc := replayCase{Part: "chain", Type: "NoncanonicalInt", Index: int(i)}
	switch {
	case pan != "":
		cx.col.add(sigOf(family, "leading-zero-int", "panic"), pan, rc)
	case total == 0 && err != nil:
		cx.col.add(sigOf(family, "canonical-int-control", "canonical-rejected"), fmt.Sprintf("%s = %x (canonical) rejected: %v", field, x, err), rc)
	case total != 0 && err == nil:
		cx.col.add(sigOf(family, "leading-zero-int", "noncanonical-accepted"),
			fmt.Sprintf("%s sent as a %d-byte string with %d leading zero byte(s) (%s) is accepted: a second wire form of the same %s", field, total, total-len(val), trunc(hx(x), 80), family), rc)
	}
}

func chainFamilies() []chainCase {
	return []chainCase{
		{"Transaction", par.Product(txRadix), txCase},
		{"Receipt", par.Product(rcRadix), receiptCase},
		{"Log", 3, logCase},
		{"StateAccount", par.Product(acRadix), accountCase},
		{"Header", par.Product(hdRadix), headerCase},
		{"NoncanonicalInt", par.Product(ncRadix), noncanonIntCase},
	}
}
