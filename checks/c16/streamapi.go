package main

// Part (a5): the Stream protocol. Custom decoders (Transaction.DecodeRLP looks at Kind() before decoding,
// LogForStorage.DecodeRLP takes Raw(), the snapshot journal walks a Stream by hand) rely on more than
// "DecodeBytes accepts the right strings": they rely on Kind() being a pure look-ahead (same kind, size AND
// error on every call until the value is consumed), on an operation never succeeding on a value whose header
// is faulty, on List() never entering an element larger than its enclosing list, and on EOL exactly at the
// end of a list. The reflection decoders act on the first Kind() error and so hide any defect behind it.
//
// This part enumerates EVERY sequence of at most L operations (quick 4, thorough 5) over
// {Kind, List, ListEnd, Bytes, Uint, Raw, Decode(into RawValue), Bool} on a fresh rlp.NewStream (and
// rlp.NewListStream for list payloads) for every input of a small set with canonical, boundary and faulty
// headers, and compares each step with a small reference model of the protocol built on the recogniser
// (recog.go: header()). The model predicts only what a caller may rely on; after an operation that failed
// having consumed content, and after ListEnd with a looked-at-but-unconsumed value, it predicts nothing
// further for that sequence (mode "unknown") except that Kind() stays idempotent and nothing panics.

import (
	"bytes"
	"fmt"
	"io"

	krlp "github.com/kardiachain/go-kardia/lib/rlp"
)

type sop int

const (
	opKind sop = iota
	opList
	opListEnd
	opBytes
	opUint
	opRaw
	opDecodeRaw
	opBool
	nStreamOps
)

var sopNames = [...]string{"Kind", "List", "ListEnd", "Bytes", "Uint", "Raw", "DecodeRaw", "Bool"}

type sres struct {
	err  error
	kind krlp.Kind
	size uint64
	b    []byte
	u    uint64
	bv   bool
}

func doStreamOp(sm *krlp.Stream, op sop) (r sres) {
	switch op {
	case opKind:
		r.kind, r.size, r.err = sm.Kind()
	case opList:
		r.size, r.err = sm.List()
	case opListEnd:
		r.err = sm.ListEnd()
	case opBytes:
		r.b, r.err = sm.Bytes()
	case opUint:
		r.u, r.err = sm.Uint()
	case opRaw:
		r.b, r.err = sm.Raw()
	case opDecodeRaw:
		var rv krlp.RawValue
		r.err = sm.Decode(&rv)
		r.b = rv
	case opBool:
		r.bv, r.err = sm.Bool()
	}
	return
}

// ---- reference model ----

const (
	modeExact   = iota
	modeStuck   // the value ahead has a faulty header: nothing may succeed on it
	modeUnknown // no further prediction for this sequence
)

type smodel struct {
	stack   [][]byte // stack[0] = rest of the top-level input, then the rest of each entered list
	pending bool     // the header of the value ahead has been looked at (consumed and cached)
	mode    int
	why     string // reason of the faulty header (stuck mode)
	slack   bool   // met an element that overruns its list within its header length (see predict)
	class   string // what the value ahead was at the last predict: the input class of a violation signature
}

type sexpect struct {
	known    bool
	wantErr  bool
	exactErr error // when wantErr and the protocol names the error (EOL, io.EOF)
	res      sres  // expected outputs when !wantErr
}

func (m *smodel) cur() []byte  { return m.stack[len(m.stack)-1] }
func (m *smodel) inList() bool { return len(m.stack) > 1 }

func (m *smodel) advance(n int) {
	m.stack[len(m.stack)-1] = m.cur()[n:]
	m.pending = false
}

// predict returns what the protocol promises for op in the current state and moves the model.
func (m *smodel) predict(op sop) sexpect {
	if m.mode == modeUnknown {
		m.class = "unpredicted-state"
		return sexpect{}
	}
	if m.mode == modeStuck {
		m.class = "faulty-header"
		if op == opListEnd {
			return sexpect{} // may legitimately fail or (header bytes were the last of the list) succeed; see after()
		}
		return sexpect{known: true, wantErr: true}
	}
	cur := m.cur()
	m.class = "well-formed-value"
	if len(cur) == 0 {
		m.class = "end-of-input"
		if m.inList() {
			m.class = "end-of-list"
		}
	}
	if op == opListEnd {
		switch {
		case m.pending:
			return sexpect{} // dropping a looked-at value: not part of the protocol
		case !m.inList(), len(cur) > 0:
			return sexpect{known: true, wantErr: true}
		}
		m.stack = m.stack[:len(m.stack)-1]
		return sexpect{known: true}
	}
	if len(cur) == 0 {
		if m.inList() {
			return sexpect{known: true, wantErr: true, exactErr: krlp.EOL}
		}
		return sexpect{known: true, wantErr: true, exactErr: io.EOF}
	}
	list, hdr, size64, reason := header(cur)
	wrapped := reason == "single-byte-wrapped"
	if reason == "payload-exceeds-input" && m.inList() && size64 <= uint64(len(cur)) {
		// The element overruns its list by no more than its own header length. Stream.Kind compares the size with
		// the list limit taken BEFORE the header was read, so it reports no error here; a string is then refused
		// by the read (ErrElemTooLarge), a list is entered and the parent's remaining size wraps around, which makes
		// it impossible to ever finish the parent (every decode of such input fails later). Inherited from upstream;
		// nothing non-canonical can be accepted through it, so the model makes no prediction (counted).
		m.mode = modeUnknown
		m.slack = true
		return sexpect{}
	}
	if reason != "" && !wrapped {
		m.class = "faulty-header"
		m.mode, m.why = modeStuck, reason
		return sexpect{known: true, wantErr: true}
	}
	size := int(size64)
	isByte := cur[0] < 0x80
	content := cur[hdr : hdr+size]
	total := hdr + size
	ok := func(r sres) sexpect { return sexpect{known: true, res: r} }
	fail := sexpect{known: true, wantErr: true}
	lookedAt := func() sexpect { m.pending = true; return fail }         // refused on the cached header: value still ahead
	consumedFail := func() sexpect { m.mode = modeUnknown; return fail } // failed after reading content
	switch op {
	case opKind:
		m.pending = true
		k, sz := krlp.String, uint64(size)
		if list {
			k = krlp.List
		} else if isByte {
			k, sz = krlp.Byte, 0
		}
		return ok(sres{kind: k, size: sz})
	case opList:
		if !list {
			return lookedAt()
		}
		m.advance(total)
		m.stack = append(m.stack, content)
		return ok(sres{size: uint64(size)})
	case opRaw, opDecodeRaw:
		m.advance(total)
		return ok(sres{b: cur[:total]})
	case opBytes:
		switch {
		case list:
			return lookedAt()
		case wrapped:
			return consumedFail()
		}
		m.advance(total)
		return ok(sres{b: content})
	case opUint, opBool:
		maxBytes := 8
		if op == opBool {
			maxBytes = 1
		}
		switch {
		case list:
			return lookedAt()
		case isByte && content[0] == 0:
			return lookedAt()
		case !isByte && size > maxBytes:
			return lookedAt()
		case !isByte && size > 0 && (content[0] == 0 || (size == 1 && content[0] < 0x80)):
			return consumedFail()
		}
		m.advance(total)
		v := beUint(content)
		if op == opUint {
			return ok(sres{u: v})
		}
		if v > 1 {
			return fail // "invalid boolean value": the value has been consumed, the stream goes on
		}
		return ok(sres{bv: v == 1})
	}
	panic("predict: unknown op")
}

// after lets the model follow what it does not predict.
func (m *smodel) after(op sop, r sres) {
	if op == opListEnd && r.err == nil && (m.mode == modeStuck || (m.mode == modeExact && m.pending)) {
		m.mode = modeUnknown
	}
}

// ---- inputs ----

type streamInput struct {
	b       []byte
	listStr bool   // feed the payload of the (canonical) outer list to NewListStream instead
	class   string // item class + host
}

func streamInputs() []streamInput {
	type it struct {
		b     []byte
		class string
	}
	var items []it
	add := func(pl []byte, list bool, what string) {
		for _, f := range headerForms(len(pl), list) {
			if len(f.hdr) > 4 {
				continue // the 8-byte length-of-length form adds nothing here
			}
			items = append(items, it{append(append([]byte{}, f.hdr...), pl...), what + "/" + f.kind})
		}
	}
	ones := func(n int) []byte { return bytes.Repeat([]byte{0x01}, n) }
	add([]byte{}, false, "str0")
	add([]byte{0x05}, false, "str1<80")
	add([]byte{0x00}, false, "str1=00")
	add([]byte{0x85}, false, "str1>=80")
	add([]byte{0x01, 0x02}, false, "str2")
	add([]byte{0x00, 0x02}, false, "str2-leading-zero")
	add(bytes.Repeat([]byte{0xaa}, 9), false, "str9")
	add(bytes.Repeat([]byte{0xaa}, 55), false, "str55")
	add(bytes.Repeat([]byte{0xaa}, 56), false, "str56")
	add([]byte{}, true, "list0")
	add(ones(1), true, "list1")
	add([]byte{0x01, 0x82, 0xaa, 0xbb}, true, "list[b,s2]")
	add([]byte{0xc1, 0x01, 0x02}, true, "list[[b],b]")
	add(ones(55), true, "list55")
	add(ones(56), true, "list56")
	items = append(items, it{[]byte{0x05}, "byte"}, it{[]byte{0x00}, "byte00"}, it{[]byte{0xb8}, "str/truncated-header"}, it{[]byte{0xf9, 0x01}, "list/truncated-header"},
		it{[]byte{0xb9, 0x00, 0x38}, "str/size-leading-zero"}, it{[]byte{}, "empty-input"})
	var out []streamInput
	for _, x := range items {
		out = append(out, streamInput{b: x.b, class: x.class + "@top"})
		if len(x.b) == 0 {
			continue
		}
		out = append(out,
			streamInput{b: listWrap(x.b), class: x.class + "@elem"},
			streamInput{b: listWrap([]byte{0x01}, x.b, []byte{0x02}), class: x.class + "@mid"},
			streamInput{b: listWrap(listWrap(x.b), []byte{0x02}), class: x.class + "@nested"},
			streamInput{b: listWrap(x.b), listStr: true, class: x.class + "@liststream"})
		// element larger than its enclosing list: the enclosing header claims one byte less, the last byte trails
		if w := listWrap(x.b); len(x.b) >= 2 && len(x.b) < 56 {
			w[0]--
			out = append(out, streamInput{b: w, class: x.class + "@elem-exceeds-list"})
		}
	}
	return out
}

// ---- evaluation ----

func newStreamFor(in streamInput) (*krlp.Stream, *smodel) {
	if in.listStr {
		_, hdr, size, _ := header(in.b)
		pl := in.b[hdr : hdr+int(size)]
		// NewListStream pretends to be positioned at a list of that length: the model starts with the header looked at
		return krlp.NewListStream(bytes.NewReader(pl), uint64(len(pl))), &smodel{stack: [][]byte{in.b}, pending: true}
	}
	return krlp.NewStream(bytes.NewReader(in.b), 0), &smodel{stack: [][]byte{in.b}}
}

func seqString(seq []sop) string {
	s := ""
	for i, op := range seq {
		if i > 0 {
			s += ","
		}
		s += sopNames[op]
	}
	return s
}

// evalStreamSeq runs one operation sequence on one input; inIdx/seqCode identify the case for replay.
func evalStreamSeq(in streamInput, inIdx int, seq []sop, cx *ctx) {
	st := cx.st
	st.add("evaluations", 1)
	st.add("stream_sequences", 1)
	rc := replayCase{Part: "stream", Type: seqString(seq), Input: hx(in.b), Index: inIdx}
	mclass := func() string { return "start" }
	bad := func(oracle, what string) {
		cx.col.add(sigOf("stream-api", mclass(), oracle), fmt.Sprintf("input %s (%s), sequence %s: %s", trunc(hx(in.b), 60), in.class, seqString(seq), what), rc)
	}
	pan := guard(func() {
		sm, m := newStreamFor(in)
		mclass = func() string { return m.class }
		var prevKind *sres
		for i, op := range seq {
			modeBefore := m.mode
			ex := m.predict(op)
			r := doStreamOp(sm, op)
			st.add("stream_ops", 1)
			if ex.known {
				st.add("stream_ops_predicted", 1)
			}
			at := func() string { return fmt.Sprintf("step %d %s", i+1, sopNames[op]) }
			// I1: Kind is a pure look-ahead
			if op == opKind {
				if prevKind != nil && (prevKind.kind != r.kind || prevKind.size != r.size || prevKind.err != r.err) {
					bad("kind-not-idempotent", fmt.Sprintf("%s returns (%v, %d, %v) but the Kind() call just before returned (%v, %d, %v)", at(), r.kind, r.size, r.err, prevKind.kind, prevKind.size, prevKind.err))
					return
				}
				rr := r
				prevKind = &rr
			} else {
				prevKind = nil
			}
			if ex.known {
				switch {
				case ex.wantErr && r.err == nil:
					o := "stream-model-disagrees"
					what := at() + " succeeds where the protocol requires an error"
					if m.mode == modeStuck || modeBefore == modeStuck {
						o = "faulty-header-op-succeeds"
						what = fmt.Sprintf("%s succeeds on a value whose header is faulty (%s)", at(), m.why)
					}
					bad(o, what)
					return
				case ex.wantErr && ex.exactErr != nil && r.err != ex.exactErr:
					bad("stream-model-disagrees", fmt.Sprintf("%s returns %v, the protocol says %v", at(), r.err, ex.exactErr))
					return
				case !ex.wantErr && r.err != nil:
					bad("stream-model-disagrees", fmt.Sprintf("%s fails with %v on a well-formed value", at(), r.err))
					return
				case !ex.wantErr && (r.kind != ex.res.kind || r.size != ex.res.size || !bytes.Equal(r.b, ex.res.b) || r.u != ex.res.u || r.bv != ex.res.bv):
					bad("stream-model-disagrees", fmt.Sprintf("%s returns kind=%v size=%d bytes=%x uint=%d bool=%v, expected kind=%v size=%d bytes=%x uint=%d bool=%v",
						at(), r.kind, r.size, r.b, r.u, r.bv, ex.res.kind, ex.res.size, ex.res.b, ex.res.u, ex.res.bv))
					return
				}
			}
			m.after(op, r)
			if m.slack {
				m.slack = false
				st.add("info_stream_element_overrun_within_header_slack", 1)
			}
			pend := "-"
			if m.pending {
				pend = "p"
			}
			st.dist("distinct_nontrivial", "stream|"+in.class+"|"+sopNames[op]+"|"+errClass(r.err)+"|"+string(rune('0'+m.mode))+string(rune('0'+len(m.stack)))+pend)
		}
	})
	if pan != "" {
		bad("panic", pan)
	}
}

func streamSeqAt(code int64, length int) []sop {
	seq := make([]sop, length)
	for i := length - 1; i >= 0; i-- {
		seq[i] = sop(code % int64(nStreamOps))
		code /= int64(nStreamOps)
	}
	return seq
}

func parseSeq(s string) []sop {
	var seq []sop
	for _, part := range splitComma(s) {
		for i, n := range sopNames {
			if n == part {
				seq = append(seq, sop(i))
			}
		}
	}
	return seq
}

func splitComma(s string) []string {
	var out []string
	cur := ""
	for _, c := range s {
		if c == ',' {
			out = append(out, cur)
			cur = ""
		} else {
			cur += string(c)
		}
	}
	if cur != "" {
		out = append(out, cur)
	}
	return out
}

func streamSeqCount(maxLen int) int64 {
	var n, p int64 = 0, 1
	for l := 1; l <= maxLen; l++ {
		p *= int64(nStreamOps)
		n += p
	}
	return n
}

// streamSeqOf maps an index in [0, streamSeqCount(maxLen)) to a sequence, shortest first.
func streamSeqOf(idx int64) []sop {
	p := int64(nStreamOps)
	for l := 1; ; l++ {
		if idx < p {
			return streamSeqAt(idx, l)
		}
		idx -= p
		p *= int64(nStreamOps)
	}
}
