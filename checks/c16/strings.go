package main

// Part (a): every byte string up to length L over the 16-byte boundary alphabet, decoded into every target
// type through DecodeBytes, two Stream variants and the go-ethereum reference, plus the untyped API
// (Split*, CountValues, NewListIterator, Stream.Kind/Raw/List/Bytes); and the huge-size-header inputs
// with an allocation bound (single-threaded section).

import (
	"bytes"
	"fmt"
	"math/big"
	"reflect"
	"runtime"
	"sort"
	"strings"

	krlp "github.com/kardiachain/go-kardia/lib/rlp"
)

var alphabet = []byte{0x00, 0x01, 0x7f, 0x80, 0x81, 0x82, 0xb7, 0xb8, 0xb9, 0xbf, 0xc0, 0xc1, 0xc2, 0xf7, 0xf8, 0xff}

// ---- target types ----

type sOptT struct {
	A uint
	B *uint  `rlp:"nil"`
	C []byte `rlp:"optional"`
	D uint   `rlp:"optional"`
}

type sOpt2T struct {
	A uint
	B uint `rlp:"optional"`
}

type sTailT struct {
	A uint
	B *[]uint `rlp:"nil"`
	T []uint  `rlp:"tail"`
}

type sNilT struct {
	A *uint    `rlp:"nil"`
	B *[]byte  `rlp:"nilList"`
	C *[]uint  `rlp:"nilString"`
	D *big.Int `rlp:"nil"`
}

type sNestT struct {
	A []byte
	S struct{ X uint }
	L []uint
	I uint `rlp:"-"`
	u uint
}

type sRawK struct {
	A krlp.RawValue
	B uint
}

type target struct {
	name   string
	kt, gt reflect.Type
	rawish bool
}

func tOf(x interface{}) reflect.Type { return reflect.TypeOf(x).Elem() }

var targets []*target

func initTargets() {
	add := func(name string, kt, gt reflect.Type) {
		targets = append(targets, &target{name: name, kt: kt, gt: gt, rawish: containsRaw(kt, map[reflect.Type]bool{})})
	}
	same := func(name string, p interface{}) { add(name, tOf(p), tOf(p)) }
	same("uint64", new(uint64))
	same("uint8", new(uint8))
	same("*big.Int", new(*big.Int))
	same("[]byte", new([]byte))
	same("[4]byte", new([4]byte))
	same("[2]byte", new([2]byte))
	same("[1]byte", new([1]byte))
	same("[0]byte", new([0]byte))
	same("string", new(string))
	same("bool", new(bool))
	same("[]uint", new([]uint))
	same("[2]uint", new([2]uint))
	add("struct-nil-optional", tOf(new(sOptT)), nil)
	add("struct-optional2", tOf(new(sOpt2T)), nil)
	same("struct-nil-tail", new(sTailT))
	same("struct-nilkinds", new(sNilT))
	same("struct-nested", new(sNestT))
	add("RawValue", rawKT, rawGT)
	add("struct-raw", tOf(new(sRawK)), gMirror(tOf(new(sRawK))))
	add("[]RawValue", reflect.SliceOf(rawKT), reflect.SliceOf(rawGT))
	same("interface{}", new(interface{}))
	same("*uint", new(*uint))
	same("*[]byte", new(*[]byte))
	same("[][]byte", new([][]byte))
}

// gMirror rebuilds a K type with krlp.RawValue replaced by grlp.RawValue.
func gMirror(t reflect.Type) reflect.Type {
	switch {
	case t == rawKT:
		return rawGT
	case t == bigValT:
		return t
	}
	switch t.Kind() {
	case reflect.Ptr:
		return reflect.PtrTo(gMirror(t.Elem()))
	case reflect.Slice:
		return reflect.SliceOf(gMirror(t.Elem()))
	case reflect.Array:
		return reflect.ArrayOf(t.Len(), gMirror(t.Elem()))
	case reflect.Struct:
		var fs []reflect.StructField
		for i := 0; i < t.NumField(); i++ {
			f := t.Field(i)
			fs = append(fs, reflect.StructField{Name: f.Name, Type: gMirror(f.Type), Tag: f.Tag, PkgPath: f.PkgPath})
		}
		return reflect.StructOf(fs)
	}
	return t
}

// ---- per-chunk statistics ----

type stats struct {
	n        map[string]int64
	distinct map[string]map[string]struct{}
	samples  []interface{}
}

func newStats() *stats {
	return &stats{n: map[string]int64{}, distinct: map[string]map[string]struct{}{}}
}

func (s *stats) add(k string, n int64) { s.n[k] += n }
func (s *stats) dist(set, member string) {
	m := s.distinct[set]
	if m == nil {
		m = map[string]struct{}{}
		s.distinct[set] = m
	}
	m[member] = struct{}{}
}

func (s *stats) flush() {
	for k, v := range s.n {
		r.Add(k, v)
	}
	for set, m := range s.distinct {
		for k := range m {
			r.Distinct(set, k)
		}
	}
	for _, x := range s.samples {
		r.Sample(x)
	}
}

type ctx struct {
	col     *collector
	st      *stats
	fullLen int // strings of at least this length skip the bytes.Reader Stream variant (0 = never skip)
}

// ---- typed evaluation of one (target, input) pair ----

func reencodeClass(s, enc []byte) string {
	a, ra := canonical(s)
	b, rb := canonical(enc)
	if ra != "" || rb != "" || !a.list || !b.list {
		return "reencode-other"
	}
	if len(b.children) < len(a.children) {
		for i, c := range b.children {
			if !bytes.Equal(c.content, a.children[i].content) || c.list != a.children[i].list {
				return "reencode-other"
			}
		}
		for _, c := range a.children[len(b.children):] {
			if len(c.content) != 0 {
				return "reencode-other"
			}
		}
		return "trailing-empty-items-for-optional-fields"
	}
	return "reencode-other"
}

func evalString(t *target, s []byte, it *item, reason string, cx *ctx, part string) {
	st := cx.st
	st.add("evaluations", 1)
	rc := replayCase{Part: part, Type: t.name, raw: s}
	cls := reason
	if cls == "" {
		cls = "canonical"
	}
	pv := reflect.New(t.kt)
	err, pan := decK(s, pv.Interface())
	if pan != "" {
		cx.col.add(sigOf(t.name, cls, "panic"), "DecodeBytes panics: "+pan, rc)
		return
	}
	accept := err == nil
	conf := ""
	if reason == "" {
		conf = conform(t.kt, it, ftag{})
	}
	expected := reason == "" && conf == ""
	key := reason
	if reason == "" {
		key = shape(it, 0)
		if conf != "" {
			key = conf + ":" + key
		}
	}
	st.dist("distinct_nontrivial", t.name+"|"+errClass(err)+"|"+key)
	switch {
	case accept && part == "scalars":
		st.add("accepted", 1)
		st.add("scalar_accepted", 1)
		st.dist("scalar_targets_accepting", t.name)
	case accept:
		st.add("accepted", 1)
		st.add("accepted_"+t.name, 1)
	case part == "scalars":
		st.dist("scalar_targets_rejecting", t.name)
	}
	flagged := false
	switch {
	case accept && reason != "":
		if t.rawish && (strings.HasPrefix(reason, "nested:") || (t.kt == rawKT && reason == "single-byte-wrapped")) {
			st.add("info_rawvalue_unvalidated_content_accepted", 1)
		} else {
			flagged = true
			cx.col.add(sigOf(t.name, reason, "noncanonical-accepted"),
				fmt.Sprintf("DecodeBytes into %s accepts %x although it is not canonical RLP (%s)", t.name, s, reason), rc)
		}
	case accept && conf == "int-leading-zero":
		flagged = true
		cx.col.add(sigOf(t.name, conf, "noncanonical-accepted"),
			fmt.Sprintf("DecodeBytes into %s accepts %x: integer with leading zero byte", t.name, s), rc)
	case accept && conf != "":
		flagged = true
		cx.col.add(sigOf(t.name, conf, "nonconforming-accepted"),
			fmt.Sprintf("DecodeBytes into %s accepts %x which is not the image of any value of the type (%s)", t.name, s, conf), rc)
	case !accept && expected:
		flagged = true
		cx.col.add(sigOf(t.name, "canonical", "canonical-rejected"),
			fmt.Sprintf("DecodeBytes into %s rejects the canonical encoding %x: %v", t.name, s, err), rc)
	}
	if accept && !flagged {
		enc, eerr, epan := encK(pv.Interface())
		switch {
		case epan != "" || eerr != nil:
			cx.col.add(sigOf(t.name, cls, "encode-of-decoded-fails"), fmt.Sprintf("decoded value of %x cannot be encoded: %v %s", s, eerr, epan), rc)
			flagged = true
		case !bytes.Equal(enc, s):
			c := reencodeClass(s, enc)
			cx.col.add(sigOf(t.name, c, "reencode-differs"),
				fmt.Sprintf("DecodeBytes into %s accepts %x but the decoded value encodes to %x: two encodings of one value are accepted", t.name, s, enc), rc)
			flagged = true
		}
		if st.n["accepted"]%997 == 1 && len(s) >= 3 && len(st.samples) < 1 && !t.rawish && reason == "" {
			st.samples = append(st.samples, map[string]interface{}{"part": part, "type": t.name, "input": trunc(hx(s), 160), "outcome": "accepted, re-encoding identical", "shape": key})
		}
	}
	// Stream variants must agree with DecodeBytes (except that a Stream does not look at trailing bytes) and
	// must consume exactly the first item.
	for variant := 0; variant < 2; variant++ {
		if variant == 0 && cx.fullLen > 0 && len(s) >= cx.fullLen {
			continue // same code path as DecodeBytes (limit discovered from the bytes.Reader): run on the shorter strings only
		}
		pv2 := reflect.New(t.kt)
		var serr error
		left := 0
		span := guard(func() {
			if variant == 0 {
				rd := bytes.NewReader(s)
				serr = krlp.NewStream(rd, 0).Decode(pv2.Interface())
				left = rd.Len()
			} else {
				rd := &shortReader{plainReader{b: s}}
				serr = krlp.NewStream(rd, uint64(len(s))).Decode(pv2.Interface())
				left = len(rd.b)
			}
		})
		vname := [2]string{"stream-bytes-reader", "stream-short-reader-limited"}[variant]
		switch {
		case span != "":
			cx.col.add(sigOf(t.name, cls, "panic"), vname+" panics: "+span, rc)
		case accept && serr != nil, serr == nil && !accept && err != krlp.ErrMoreThanOneValue:
			cx.col.add(sigOf(t.name, cls, vname+"-disagrees"),
				fmt.Sprintf("%s on %x: err=%v but DecodeBytes err=%v", vname, s, serr, err), rc)
		case accept && !sameValue(pv.Elem(), pv2.Elem()):
			cx.col.add(sigOf(t.name, cls, vname+"-disagrees"), fmt.Sprintf("%s decodes %x to a different value", vname, s), rc)
		case serr == nil && it != nil && len(s)-left != it.total:
			// it != nil: the first item of s is canonical (possibly followed by more bytes)
			cx.col.add(sigOf(t.name, cls, "stream-consumed-length"),
				fmt.Sprintf("%s.Decode into %s succeeds on %x but consumes %d bytes; the first item has %d", vname, t.name, s, len(s)-left, it.total), rc)
		}
	}
	// reference
	if t.gt != nil {
		gv := reflect.New(t.gt)
		gerr, gpan := decG(s, gv.Interface())
		gaccept := gerr == nil && gpan == ""
		if gpan != "" {
			st.add("info_reference_panics", 1)
		}
		st.add("reference_verdicts_compared", 1)
		if accept && gaccept {
			st.add("reference_values_compared", 1)
		}
		if accept != gaccept {
			// decided by the recogniser + conformance model above (expected vs accept)
			st.add("disagreements_checked", 1)
			dir := "reference-permissive"
			if accept {
				dir = "reference-strict"
			}
			st.add("disagreements_"+strings.ReplaceAll(dir, "-", "_"), 1)
			st.dist("disagreement_classes", t.name+"|"+dir+"|"+key)
			if accept != expected && !flagged && !t.rawish {
				cx.col.add(sigOf(t.name, cls, "disagreement-undecided"), fmt.Sprintf("%x: kardia accept=%v reference accept=%v recogniser expects %v", s, accept, gaccept, expected), rc)
			}
		} else if accept && !flagged && !sameValue(pv.Elem(), gv.Elem()) {
			cx.col.add(sigOf(t.name, cls, "reference-value-differs"), fmt.Sprintf("%x decodes to different values in lib/rlp and the reference", s), rc)
		}
	}
}

// ---- untyped API ----

func beUint(b []byte) uint64 {
	var x uint64
	for _, c := range b {
		x = x<<8 | uint64(c)
	}
	return x
}

func kindOf(s []byte, list bool) krlp.Kind {
	switch {
	case list:
		return krlp.List
	case s[0] < 0x80:
		return krlp.Byte
	}
	return krlp.String
}

func evalUntyped(s []byte, cx *ctx, part string) {
	st := cx.st
	st.add("evaluations", 1)
	rc := replayCase{Part: part, Type: "untyped-api", raw: s}
	list, hdr, size, hreason := header(s)
	cls := hreason
	if cls == "" {
		cls = "canonical-header"
	}
	bad := func(oracle, what string) { cx.col.add(sigOf("untyped-api", cls, oracle), what, rc) }
	pan := guard(func() {
		// Split
		k, content, rest, err := krlp.Split(s)
		st.dist("distinct_nontrivial", "Split|"+errClass(err)+"|"+cls)
		switch {
		case err == nil && hreason != "":
			bad("split-noncanonical-accepted", fmt.Sprintf("Split accepts %x (%s)", s, hreason))
		case err != nil && hreason == "":
			bad("split-canonical-rejected", fmt.Sprintf("Split rejects %x: %v", s, err))
		case err == nil:
			end := hdr + int(size)
			if k != kindOf(s, list) || !bytes.Equal(content, s[hdr:end]) || !bytes.Equal(rest, s[end:]) {
				bad("split-wrong-parts", fmt.Sprintf("Split(%x) = kind %v content %x rest %x", s, k, content, rest))
			}
		}
		// SplitString / SplitList / SplitUint64
		_, _, e1 := krlp.SplitString(s)
		if (e1 == nil) != (hreason == "" && !list) {
			bad("splitstring-disagrees", fmt.Sprintf("SplitString(%x) err=%v", s, e1))
		}
		_, _, e2 := krlp.SplitList(s)
		if (e2 == nil) != (hreason == "" && list) {
			bad("splitlist-disagrees", fmt.Sprintf("SplitList(%x) err=%v", s, e2))
		}
		x, _, e3 := krlp.SplitUint64(s)
		okU := hreason == "" && !list && size <= 8 && (size == 0 || s[hdr] != 0)
		if (e3 == nil) != okU || (okU && x != beUint(s[hdr:hdr+int(size)])) {
			bad("splituint64-disagrees", fmt.Sprintf("SplitUint64(%x) = %d err=%v", s, x, e3))
		}
		// CountValues
		wantN, wantOK := 0, true
		for p := s; len(p) > 0; wantN++ {
			_, h, z, why := header(p)
			if why != "" {
				wantOK = false
				break
			}
			p = p[h+int(z):]
		}
		n, e4 := krlp.CountValues(s)
		if (e4 == nil) != wantOK || (wantOK && n != wantN) {
			bad("countvalues-disagrees", fmt.Sprintf("CountValues(%x) = %d err=%v, expected %d ok=%v", s, n, e4, wantN, wantOK))
		}
		// list iterator
		iter, e5 := krlp.NewListIterator(krlp.RawValue(s))
		if (e5 == nil) != (hreason == "" && list) {
			bad("listiterator-disagrees", fmt.Sprintf("NewListIterator(%x) err=%v", s, e5))
		} else if e5 == nil {
			p := s[hdr : hdr+int(size)]
			for {
				if !iter.Next() {
					if len(p) != 0 {
						bad("listiterator-disagrees", fmt.Sprintf("list iterator over %x stops with %d payload bytes left", s, len(p)))
					}
					break
				}
				if len(p) == 0 {
					bad("listiterator-disagrees", fmt.Sprintf("list iterator over %x yields items past the end", s))
					break
				}
				_, h, z, why := header(p)
				if (iter.Err() == nil) != (why == "") {
					bad("listiterator-disagrees", fmt.Sprintf("list iterator over %x: err=%v, recogniser: %q", s, iter.Err(), why))
					break
				}
				if why != "" {
					break
				}
				if !bytes.Equal(iter.Value(), p[:h+int(z)]) {
					bad("listiterator-disagrees", fmt.Sprintf("list iterator over %x yields %x", s, iter.Value()))
					break
				}
				p = p[h+int(z):]
			}
		}
		// Stream.Kind / Stream.Raw: header-level agreement (Raw does not look at content)
		sm := krlp.NewStream(bytes.NewReader(s), 0)
		_, ksz, e6 := sm.Kind()
		lenient := hreason == "" || hreason == "single-byte-wrapped"
		if (e6 == nil) != lenient {
			bad("stream-kind-disagrees", fmt.Sprintf("Stream.Kind(%x) err=%v, recogniser: %q", s, e6, hreason))
		} else if e6 == nil && s[0] >= 0x80 && ksz != size {
			bad("stream-kind-disagrees", fmt.Sprintf("Stream.Kind(%x) size=%d, recogniser %d", s, ksz, size))
		}
		raw, e7 := krlp.NewStream(bytes.NewReader(s), 0).Raw()
		if (e7 == nil) != lenient || (e7 == nil && !bytes.Equal(raw, s[:hdr+int(size)])) {
			bad("stream-raw-disagrees", fmt.Sprintf("Stream.Raw(%x) = %x err=%v, recogniser: %q", s, raw, e7, hreason))
		}
		// Stream.ReadBytes into a buffer of exactly the claimed size: strict (single byte rule included)
		if len(s) > 0 && !list && (hreason == "" || hreason == "single-byte-wrapped") {
			buf := make([]byte, size)
			e8 := krlp.NewStream(bytes.NewReader(s), 0).ReadBytes(buf)
			if (e8 == nil) != (hreason == "") || (e8 == nil && !bytes.Equal(buf, s[hdr:hdr+int(size)])) {
				bad("stream-readbytes-disagrees", fmt.Sprintf("Stream.ReadBytes(%x) = %x err=%v, recogniser: %q", s, buf, e8, hreason))
			}
			if size > 0 {
				if e9 := krlp.NewStream(bytes.NewReader(s), 0).ReadBytes(make([]byte, size-1)); e9 == nil {
					bad("stream-readbytes-disagrees", fmt.Sprintf("Stream.ReadBytes(%x) accepts a buffer of the wrong size", s))
				}
			}
		}
		// full untyped walk through the Stream API
		it, _, preason := parseItem(s, 0)
		sm = krlp.NewStream(bytes.NewReader(s), 0)
		used, werr := walk(sm, 0)
		st.dist("distinct_nontrivial", "walk|"+errClass(werr)+"|"+preasonOrShape(it, preason))
		if (werr == nil) != (preason == "") {
			bad("stream-walk-disagrees", fmt.Sprintf("walking %x with Stream.List/Bytes/ListEnd: err=%v, recogniser: %q", s, werr, preason))
		} else if werr == nil && used != it.total {
			bad("stream-walk-disagrees", fmt.Sprintf("walking %x consumed %d bytes, the first item has %d", s, used, it.total))
		}
	})
	if pan != "" {
		bad("panic", "untyped API panics: "+pan)
	}
}

func preasonOrShape(it *item, reason string) string {
	if reason != "" {
		return reason
	}
	return shape(it, 0)
}

// walk consumes one item through the public Stream API and returns the number of encoded bytes.
func walk(sm *krlp.Stream, depth int) (int, error) {
	kind, size, err := sm.Kind()
	if err != nil {
		return 0, err
	}
	if kind != krlp.List {
		b, err := sm.Bytes()
		if err != nil {
			return 0, err
		}
		if kind == krlp.Byte {
			return 1, nil
		}
		return int(krlp.ListSize(uint64(len(b)))), nil // header size of a string equals that of a list of the same payload
	}
	if _, err := sm.List(); err != nil {
		return 0, err
	}
	total := 0
	for {
		n, err := walk(sm, depth+1)
		if err == krlp.EOL {
			break
		}
		if err != nil {
			return 0, err
		}
		total += n
	}
	if err := sm.ListEnd(); err != nil {
		return 0, err
	}
	if uint64(total) != size {
		return 0, fmt.Errorf("walk: list of size %d held %d bytes", size, total)
	}
	return int(krlp.ListSize(size)), nil
}

// ---- enumeration ----

func pow16(k int) int64 { return int64(1) << (4 * uint(k)) }

func stringAt(idx int64, buf []byte) []byte {
	l := 0
	for idx >= pow16(l) {
		idx -= pow16(l)
		l++
	}
	buf = buf[:l]
	for i := l - 1; i >= 0; i-- {
		buf[i] = alphabet[idx&15]
		idx >>= 4
	}
	return buf
}

// extSpace is the second exhaustive space: a short-form header for 3, 4 (thorough: 5) payload bytes, which the
// 16-byte alphabet itself cannot express, followed by every payload over the alphabet of exactly the claimed
// length (and, for the smaller ones, one byte less / one byte more).
type extFamily struct {
	first byte
	plen  int
}

func extFamilies(thorough bool) []extFamily {
	var out []extFamily
	for _, base := range []byte{0x80, 0xc0} {
		out = append(out, extFamily{base + 3, 2}, extFamily{base + 3, 3}, extFamily{base + 3, 4}, extFamily{base + 4, 4})
		if thorough {
			out = append(out, extFamily{base + 4, 3}, extFamily{base + 4, 5}, extFamily{base + 5, 5})
		}
	}
	return out
}

func extTotal(fams []extFamily) int64 {
	var n int64
	for _, f := range fams {
		n += pow16(f.plen)
	}
	return n
}

func extStringAt(fams []extFamily, idx int64, buf []byte) []byte {
	for _, f := range fams {
		if idx >= pow16(f.plen) {
			idx -= pow16(f.plen)
			continue
		}
		buf = buf[:1+f.plen]
		buf[0] = f.first
		for i := f.plen; i >= 1; i-- {
			buf[i] = alphabet[idx&15]
			idx >>= 4
		}
		return buf
	}
	panic("extStringAt: index out of range")
}

func evalAllTargets(s []byte, cx *ctx, part string) {
	it, reason := canonical(s)
	for _, t := range targets {
		evalString(t, s, it, reason, cx, part)
	}
	evalUntyped(s, cx, part)
	cx.st.add("strings", 1)
}

// ---- header mutations at the 55/56 and 255/256 payload boundaries ----

// boundaryInputs returns, for strings and lists with payload lengths around the form boundaries, the
// canonical encoding and every other header form: long form with 1..8 size bytes (zero padded), claimed
// size one less / one more than the payload, each at top level and nested in a list. The short alphabet
// strings cannot reach these (a long-form header over a 55-byte payload needs 57 bytes of input).
func boundaryInputs() [][]byte {
	var out [][]byte
	wrap := func(b []byte) []byte { // canonical list around one item
		if len(b) < 56 {
			return append([]byte{0xc0 + byte(len(b))}, b...)
		}
		var be []byte
		for x := len(b); x > 0; x >>= 8 {
			be = append([]byte{byte(x)}, be...)
		}
		return append(append([]byte{0xf7 + byte(len(be))}, be...), b...)
	}
	for _, list := range []bool{false, true} {
		for _, n := range []int{0, 1, 2, 3, 54, 55, 56, 57, 255, 256} {
			payloads := [][]byte{bytes.Repeat([]byte{0x01}, n)}
			if !list {
				payloads = [][]byte{bytes.Repeat([]byte{0xaa}, n)}
				if n == 1 {
					payloads = append(payloads, []byte{0x05}, []byte{0x00}, []byte{0x7f}, []byte{0x80})
				}
			}
			for _, pl := range payloads {
				var forms [][]byte
				short, long := byte(0x80), byte(0xb7)
				if list {
					short, long = 0xc0, 0xf7
				}
				for _, claim := range []int{n - 1, n, n + 1} {
					if claim < 0 {
						continue
					}
					if claim < 56 {
						forms = append(forms, []byte{short + byte(claim)})
					}
					for k := 1; k <= 8; k++ {
						if claim>>(8*uint(k)) != 0 {
							continue
						}
						h := make([]byte, 1+k)
						h[0] = long + byte(k)
						for i, x := k, claim; i >= 1; i, x = i-1, x>>8 {
							h[i] = byte(x)
						}
						forms = append(forms, h)
					}
				}
				if !list && n == 1 && pl[0] < 0x80 {
					forms = append(forms, []byte{}) // the single byte itself
				}
				for _, h := range forms {
					enc := append(append([]byte{}, h...), pl...)
					out = append(out, enc, wrap(enc), wrap(append(append([]byte{0x01}, enc...), 0x02)))
				}
			}
		}
	}
	return out
}

// ---- huge-size headers and the allocation bound ----

type hugeInput struct {
	b     []byte
	claim uint64
	class string
}

func hugeInputs() []hugeInput {
	sizes := []uint64{56, 255, 256, 65535, 65536, 1 << 20, 1 << 21, 1 << 24, 1<<31 - 1, 1 << 31, 1<<32 - 1, 1 << 32, 1 << 40, 1 << 48, 1 << 56, 1<<63 - 1, 1 << 63, 1<<64 - 1}
	var out []hugeInput
	for _, size := range sizes {
		var be []byte
		for x := size; x > 0; x >>= 8 {
			be = append([]byte{byte(x)}, be...)
		}
		for _, k := range []struct {
			tag  byte
			name string
		}{{0xb7, "string"}, {0xf7, "list"}} {
			for lz := 0; lz < 2; lz++ {
				sz := be
				if lz == 1 {
					if len(be) == 8 {
						continue
					}
					sz = append([]byte{0}, be...)
				}
				hdr := append([]byte{k.tag + byte(len(sz))}, sz...)
				add := func(b []byte, pos string) {
					out = append(out, hugeInput{b: b, claim: size, class: "huge-size-header:" + k.name + "@" + pos})
				}
				add(hdr, "top")
				add(append(append([]byte{}, hdr...), 0x01, 0x80, 0xc0), "top")
				add(append([]byte{0xc0 + byte(len(hdr))}, hdr...), "nested")
				add(append([]byte{0xc1 + byte(len(hdr)), 0x01}, hdr...), "nested")
				add(append([]byte{0xc1 + byte(len(hdr)), 0xc0 + byte(len(hdr))}, hdr...), "nested")
				add(append([]byte{0xc2 + byte(len(hdr)), 0x01}, append(append([]byte{}, hdr...), 0x02)...), "nested")
			}
		}
	}
	sort.SliceStable(out, func(i, j int) bool { return out[i].claim < out[j].claim })
	return out
}

const allocSlack = 1 << 20

func measure(f func()) uint64 {
	var m0, m1 runtime.MemStats
	runtime.ReadMemStats(&m0)
	f()
	runtime.ReadMemStats(&m1)
	return m1.TotalAlloc - m0.TotalAlloc
}

// allocOne measures the typed decode of one huge-header input; returns false when it is unsafe to
// continue with larger claims for this (type, class).
func allocOne(t *target, in hugeInput, cx *ctx) bool {
	rc := replayCase{Part: "alloc", Type: t.name, Input: hx(in.b)}
	var err error
	var pan string
	delta := measure(func() {
		err, pan = decK(in.b, reflect.New(t.kt).Interface())
		if pan == "" {
			pan = guard(func() { krlp.NewStream(&plainReader{b: in.b}, uint64(len(in.b))).Decode(reflect.New(t.kt).Interface()) })
		}
	})
	cx.st.add("evaluations", 1)
	cx.st.add("alloc_measurements", 1)
	if int64(delta) > cx.st.n["max_alloc_delta_bytes"] {
		cx.st.n["max_alloc_delta_bytes"] = int64(delta)
	}
	cx.st.dist("distinct_nontrivial", t.name+"|"+errClass(err)+"|"+in.class)
	ok := true
	if pan != "" {
		cx.col.add(sigOf(t.name, in.class, "panic"), fmt.Sprintf("decoding %x (header claims %d bytes) panics: %s", in.b, in.claim, pan), rc)
		ok = false
	}
	if delta > allocSlack {
		cx.col.add(sigOf(t.name, in.class, "alloc-bound"),
			fmt.Sprintf("decoding the %d-byte input %x (header claims %d bytes) allocates %d bytes", len(in.b), in.b, in.claim, delta), rc)
		ok = false
	}
	if ok && err != nil && in.claim == 1<<64-1 && t.name == "[]byte" && len(cx.st.samples) == 0 {
		cx.st.samples = append(cx.st.samples, map[string]interface{}{"part": "alloc", "type": t.name, "input": hx(in.b), "claimed_payload_bytes": "2^64-1",
			"outcome": "rejected: " + errClass(err), "alloc_delta_bytes": delta})
	}
	return ok
}

func allocUntyped(in hugeInput, cx *ctx) bool {
	rc := replayCase{Part: "alloc", Type: "untyped-api", Input: hx(in.b)}
	tmp := &ctx{col: cx.col, st: cx.st}
	delta := measure(func() { evalUntyped(in.b, tmp, "alloc") })
	cx.st.add("alloc_measurements", 1)
	if delta > allocSlack {
		cx.col.add(sigOf("untyped-api", in.class, "alloc-bound"),
			fmt.Sprintf("Split/CountValues/Stream on the %d-byte input %x (header claims %d bytes) allocate %d bytes", len(in.b), in.b, in.claim, delta), rc)
		return false
	}
	return true
}

func allocSection(cx *ctx) {
	// warm the type caches so that one-off reflection work is not attributed to an input
	for _, t := range targets {
		decK([]byte{0x80}, reflect.New(t.kt).Interface())
		decK([]byte{0xc0}, reflect.New(t.kt).Interface())
		if t.gt != nil {
			decG([]byte{0x80}, reflect.New(t.gt).Interface())
		}
	}
	evalUntyped([]byte{0xc1, 0x80}, &ctx{col: &collector{m: map[string]*vcase{}}, st: newStats()}, "alloc")
	runtime.GC()
	broken := map[string]bool{}
	for _, in := range hugeInputs() {
		it, reason := canonical(in.b)
		if reason == "" {
			panic("huge input is canonical: " + hx(in.b))
		}
		for _, t := range targets {
			k := t.name + "|" + in.class
			if broken[k] {
				cx.st.add("alloc_skipped_after_violation", 1)
				continue
			}
			if !allocOne(t, in, cx) {
				broken[k] = true
				continue
			}
			evalString(t, in.b, it, reason, cx, "alloc")
		}
		k := "untyped-api|" + in.class
		if !broken[k] && !allocUntyped(in, cx) {
			broken[k] = true
		}
		cx.st.add("huge_header_inputs", 1)
	}
}
