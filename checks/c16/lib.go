package main

// Thin wrappers around the two codecs (K = lib/rlp under test, G = go-ethereum v1.9.15 reference), the
// value normal form used to compare decoded values, and the violation collector.

import (
	"bytes"
	"encoding/hex"
	"fmt"
	"io"
	"math/big"
	"reflect"
	"runtime/debug"
	"sort"
	"strings"
	"sync"

	grlp "github.com/ethereum/go-ethereum/rlp"
	krlp "github.com/kardiachain/go-kardia/lib/rlp"
)

var (
	rawKT = reflect.TypeOf(krlp.RawValue{})
	rawGT = reflect.TypeOf(grlp.RawValue{})
)

func hx(b []byte) string { return hex.EncodeToString(b) }

func trunc(s string, n int) string {
	if len(s) > n {
		return s[:n] + "..."
	}
	return s
}

// guard runs f; a panic is returned as text.
func guard(f func()) (pan string) {
	defer func() {
		if p := recover(); p != nil {
			pan = fmt.Sprintf("%v | %s", p, trunc(string(debug.Stack()), 1500))
		}
	}()
	f()
	return ""
}

func decK(s []byte, ptr interface{}) (err error, pan string) {
	pan = guard(func() { err = krlp.DecodeBytes(s, ptr) })
	return
}

func encK(v interface{}) (b []byte, err error, pan string) {
	pan = guard(func() { b, err = krlp.EncodeToBytes(v) })
	return
}

func decG(s []byte, ptr interface{}) (err error, pan string) {
	pan = guard(func() { err = grlp.DecodeBytes(s, ptr) })
	return
}

func encG(v interface{}) (b []byte, err error, pan string) {
	pan = guard(func() { b, err = grlp.EncodeToBytes(v) })
	return
}

// plainReader implements only io.Reader (so that Stream wraps it into a bufio.Reader) and hands out
// at most 3 bytes per call.
type plainReader struct{ b []byte }

func (p *plainReader) Read(out []byte) (int, error) {
	if len(p.b) == 0 {
		return 0, io.EOF
	}
	n := 3
	if n > len(p.b) {
		n = len(p.b)
	}
	if n > len(out) {
		n = len(out)
	}
	copy(out, p.b[:n])
	p.b = p.b[n:]
	return n, nil
}

// shortReader is a ByteReader that is not one of the reader types whose length Stream discovers by itself
// (so the explicit input limit is what protects it) and that returns at most 3 bytes per Read.
type shortReader struct{ plainReader }

func (p *shortReader) ReadByte() (byte, error) {
	if len(p.b) == 0 {
		return 0, io.EOF
	}
	c := p.b[0]
	p.b = p.b[1:]
	return c, nil
}

// errClass strips types, contexts and numbers from a decoder error so that it names a rejection class.
func errClass(err error) string {
	if err == nil {
		return "accept"
	}
	s := err.Error()
	if i := strings.Index(s, " for "); i >= 0 {
		s = s[:i]
	}
	if i := strings.Index(s, ", decoding into"); i >= 0 {
		s = s[:i]
	}
	if i := strings.Index(s, " (got"); i >= 0 {
		s = s[:i]
	}
	s = strings.TrimRight(s, "0123456789 ")
	return strings.TrimPrefix(s, "rlp: ")
}

// ---------------------------------------------------------------------------------------------
// normal form of Go values under the documented Go<->RLP mapping
//
//   unsigned ints -> uint64, bool -> bool, strings / byte slices / byte arrays / RawValue -> "s:<bytes>",
//   big.Int -> "i:<decimal>", slices / arrays / structs -> []interface{} (nil slice == empty slice),
//   pointer without nil tag: nil == pointer to the zero value; pointer with a nil tag: nil == pointer to
//   a value with an empty encoding; nil interface == empty list.

type nilMarker struct{}

func isEmptyNorm(n interface{}) bool {
	switch x := n.(type) {
	case uint64:
		return x == 0
	case bool:
		return !x
	case string:
		return x == "s:" || x == "i:0"
	case []interface{}:
		return len(x) == 0
	}
	return false
}

func norm(v reflect.Value, nilTag bool) interface{} {
	t := v.Type()
	switch {
	case t == bigPtrT:
		if v.IsNil() {
			return "i:0"
		}
		return "i:" + v.Interface().(*big.Int).String()
	case t == bigValT:
		b := v.Interface().(big.Int)
		return "i:" + b.String()
	case t.Kind() == reflect.Ptr:
		if nilTag {
			if v.IsNil() {
				return nilMarker{}
			}
			e := norm(v.Elem(), false)
			if isEmptyNorm(e) {
				return nilMarker{}
			}
			return e
		}
		if v.IsNil() {
			return norm(reflect.Zero(t.Elem()), false)
		}
		return norm(v.Elem(), false)
	case isUintKind(t.Kind()):
		return v.Uint()
	case t.Kind() == reflect.Bool:
		return v.Bool()
	case t.Kind() == reflect.String:
		return "s:" + v.String()
	case t.Kind() == reflect.Slice && t.Elem().Kind() == reflect.Uint8:
		return "s:" + string(v.Bytes())
	case t.Kind() == reflect.Array && t.Elem().Kind() == reflect.Uint8:
		b := make([]byte, v.Len())
		for i := range b {
			b[i] = byte(v.Index(i).Uint())
		}
		return "s:" + string(b)
	case t.Kind() == reflect.Slice || t.Kind() == reflect.Array:
		out := make([]interface{}, 0, v.Len())
		for i := 0; i < v.Len(); i++ {
			out = append(out, norm(v.Index(i), false))
		}
		return out
	case t.Kind() == reflect.Struct:
		out := []interface{}{}
		for i := 0; i < t.NumField(); i++ {
			f := t.Field(i)
			if f.PkgPath != "" {
				continue
			}
			ft := fieldTag(f)
			if ft.ignored {
				continue
			}
			out = append(out, norm(v.Field(i), ft.nilKind != ""))
		}
		return out
	case t.Kind() == reflect.Interface:
		if v.IsNil() {
			return []interface{}{}
		}
		return norm(v.Elem(), false)
	}
	panic("norm: unsupported type " + t.String())
}

func sameValue(a, b reflect.Value) bool { return reflect.DeepEqual(norm(a, false), norm(b, false)) }

// conv copies a value of a K type into the structurally identical G type (they differ only in the
// RawValue named type).
func conv(v reflect.Value, gt reflect.Type) reflect.Value {
	if v.Type() == gt {
		return v
	}
	out := reflect.New(gt).Elem()
	switch gt.Kind() {
	case reflect.Slice:
		if v.IsNil() {
			return out
		}
		if gt.Elem().Kind() == reflect.Uint8 {
			out.SetBytes(append([]byte{}, v.Bytes()...))
			return out
		}
		out.Set(reflect.MakeSlice(gt, v.Len(), v.Len()))
		for i := 0; i < v.Len(); i++ {
			out.Index(i).Set(conv(v.Index(i), gt.Elem()))
		}
	case reflect.Array:
		for i := 0; i < v.Len(); i++ {
			out.Index(i).Set(conv(v.Index(i), gt.Elem()))
		}
	case reflect.Ptr:
		if v.IsNil() {
			return out
		}
		p := reflect.New(gt.Elem())
		p.Elem().Set(conv(v.Elem(), gt.Elem()))
		out.Set(p)
	case reflect.Struct:
		for i := 0; i < gt.NumField(); i++ {
			out.Field(i).Set(conv(v.Field(i), gt.Field(i).Type))
		}
	case reflect.Interface:
		if !v.IsNil() {
			out.Set(v.Elem())
		}
	default:
		panic("conv: unsupported " + gt.String())
	}
	return out
}

// ---------------------------------------------------------------------------------------------
// violation collector: keeps, per signature, the smallest failing case; emitted at the end so that the
// replay file holds the minimal counterexample regardless of goroutine scheduling.

type vcase struct {
	sig, what string
	rc        replayCase
	count     int64
}

type replayCase struct {
	Part  string `json:"part"`            // strings | alloc | values | chain
	Type  string `json:"type,omitempty"`  // target / generated type name / chain case family
	Input string `json:"input,omitempty"` // hex input (strings, alloc)
	Index int    `json:"index,omitempty"` // value index (values) / case index (chain)
	Note  string `json:"note,omitempty"`
	Count int64  `json:"occurrences,omitempty"`
	raw   []byte // input not yet hex-encoded (the enumeration buffer is reused: encoded when the case is stored)
}

func (c replayCase) weight() (int, string) {
	if c.Part == "stream" { // shortest operation sequence first, then the shortest input
		return len(c.Type)*100000 + len(c.Input), c.Type + c.Input
	}
	return len(c.Input) + c.Index*1000, c.Type + c.Input
}

type collector struct {
	mu sync.Mutex
	m  map[string]*vcase
}

var viol = &collector{m: map[string]*vcase{}}

func (c *collector) add(sig, what string, rc replayCase) {
	if rc.raw != nil {
		rc.Input, rc.raw = hx(rc.raw), nil
	}
	c.mu.Lock()
	defer c.mu.Unlock()
	v := c.m[sig]
	if v == nil {
		c.m[sig] = &vcase{sig: sig, what: what, rc: rc, count: 1}
		return
	}
	v.count++
	w1, k1 := rc.weight()
	w0, k0 := v.rc.weight()
	if w1 < w0 || (w1 == w0 && k1 < k0) {
		v.what, v.rc = what, rc
	}
}

func (c *collector) sorted() []*vcase {
	c.mu.Lock()
	defer c.mu.Unlock()
	var out []*vcase
	for _, v := range c.m {
		out = append(out, v)
	}
	sort.Slice(out, func(i, j int) bool { return out[i].sig < out[j].sig })
	return out
}

func sigOf(typ, class, oracle string) string {
	return "C16|type=" + typ + "|input-class=" + class + "|oracle=" + oracle
}

var _ = bytes.Equal
