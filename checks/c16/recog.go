package main

// Independent canonical-form recogniser for RLP, written from the definition (Yellow Paper, appendix B)
// and sharing no code with lib/rlp or go-ethereum:
//
//	a single byte b in [0x00,0x7f]        is its own encoding
//	a string of n <= 55 bytes             is 0x80+n, bytes      (a single byte < 0x80 MUST use the first form)
//	a string of n >= 56 bytes             is 0xb7+|BE(n)|, BE(n), bytes     (BE(n) minimal: no leading zero byte)
//	a list with payload of n <= 55 bytes  is 0xc0+n, payload    (payload = concatenation of canonical items)
//	a list with payload of n >= 56 bytes  is 0xf7+|BE(n)|, BE(n), payload
//
// and the input is exactly one item (no missing, no trailing bytes).
//
// The second half of the file is a type-directed conformance model: given a canonical item tree and a Go
// type it says whether the item is the image of some value of that type under the documented mapping
// (integers big-endian without leading zeros, bool = 0/1, byte arrays of exact length, structs = lists of
// their exported fields with the nil / optional / tail / "-" tags).

import (
	"math/big"
	"reflect"
	"strings"
)

type item struct {
	list     bool
	content  []byte // string content (single bytes included) or list payload
	children []*item
	total    int // encoded length
}

// header parses the first header of s. reason == "" means: canonical header and the payload fits.
func header(s []byte) (list bool, hdr int, size uint64, reason string) {
	if len(s) == 0 {
		return false, 0, 0, "empty-input"
	}
	b := s[0]
	var ll int
	switch {
	case b < 0x80:
		return false, 0, 1, ""
	case b < 0xb8:
		hdr, size = 1, uint64(b-0x80)
		if size == 1 && len(s) > 1 && s[1] < 0x80 {
			return false, 1, 1, "single-byte-wrapped"
		}
	case b < 0xc0:
		ll = int(b - 0xb7)
	case b < 0xf8:
		list, hdr, size = true, 1, uint64(b-0xc0)
	default:
		list, ll = true, int(b-0xf7)
	}
	if ll > 0 {
		hdr = 1 + ll
		if len(s) < hdr {
			return list, hdr, 0, "truncated-header"
		}
		if s[1] == 0 {
			return list, hdr, 0, "size-leading-zero"
		}
		for _, c := range s[1:hdr] {
			size = size<<8 | uint64(c)
		}
		if size < 56 {
			return list, hdr, size, "long-form-short-payload"
		}
	}
	if size > uint64(len(s)-hdr) {
		return list, hdr, size, "payload-exceeds-input"
	}
	return list, hdr, size, ""
}

// parseItem parses one canonical item (recursively) from the front of s.
func parseItem(s []byte, depth int) (it *item, rest []byte, reason string) {
	list, hdr, size, reason := header(s)
	if reason != "" {
		if depth > 0 {
			reason = "nested:" + reason
		}
		return nil, s, reason
	}
	end := hdr + int(size)
	it = &item{list: list, content: s[hdr:end], total: end}
	if list {
		p := it.content
		for len(p) > 0 {
			c, r, why := parseItem(p, depth+1)
			if why != "" {
				if !strings.HasPrefix(why, "nested:") {
					why = "nested:" + why
				}
				return nil, s, why
			}
			it.children = append(it.children, c)
			p = r
		}
	}
	return it, s[end:], ""
}

// canonical says whether s is exactly one canonical RLP item; reason names the first defect otherwise.
func canonical(s []byte) (*item, string) {
	it, rest, reason := parseItem(s, 0)
	if reason != "" {
		return nil, reason
	}
	if len(rest) > 0 {
		return it, "trailing-bytes"
	}
	return it, ""
}

// shape is a coarse structural description of a canonical item, used to count distinct cases.
func shape(it *item, depth int) string {
	if !it.list {
		switch {
		case len(it.content) == 0:
			return "e"
		case len(it.content) == 1 && it.content[0] == 0:
			return "z"
		case len(it.content) == 1 && it.content[0] < 0x80:
			return "b"
		case it.content[0] == 0:
			return "s0"
		case len(it.content) == 1:
			return "s1"
		}
		return "s"
	}
	if depth >= 3 {
		return "L"
	}
	var sb strings.Builder
	sb.WriteString("L(")
	for i, c := range it.children {
		if i > 0 {
			sb.WriteByte(',')
		}
		sb.WriteString(shape(c, depth+1))
	}
	sb.WriteByte(')')
	return sb.String()
}

// ---------------------------------------------------------------------------------------------
// type-directed conformance

var (
	bigPtrT = reflect.TypeOf((*big.Int)(nil))
	bigValT = reflect.TypeOf(big.Int{})
)

func isRawT(t reflect.Type) bool { return t == rawKT || t == rawGT }

func isUintKind(k reflect.Kind) bool { return k >= reflect.Uint && k <= reflect.Uintptr }

func isByteSeq(t reflect.Type) bool {
	return (t.Kind() == reflect.Slice || t.Kind() == reflect.Array) && t.Elem().Kind() == reflect.Uint8
}

type ftag struct {
	nilKind  string // "", "string", "list"
	optional bool
	tail     bool
	ignored  bool
}

func fieldTag(f reflect.StructField) ftag {
	var t ftag
	for _, p := range strings.Split(f.Tag.Get("rlp"), ",") {
		switch strings.TrimSpace(p) {
		case "-":
			t.ignored = true
		case "optional":
			t.optional = true
		case "tail":
			t.tail = true
		case "nilString":
			t.nilKind = "string"
		case "nilList":
			t.nilKind = "list"
		case "nil":
			e := f.Type.Elem()
			if isUintKind(e.Kind()) || e.Kind() == reflect.String || e.Kind() == reflect.Bool || isByteSeq(e) {
				t.nilKind = "string"
			} else {
				t.nilKind = "list"
			}
		}
	}
	return t
}

func intRule(it *item, maxBytes int) string {
	if it.list {
		return "list-for-string"
	}
	if len(it.content) > 0 && it.content[0] == 0 {
		return "int-leading-zero"
	}
	if maxBytes > 0 && len(it.content) > maxBytes {
		return "int-overflow"
	}
	return ""
}

// conform returns "" when the canonical item it is the image of a value of type t.
func conform(t reflect.Type, it *item, tg ftag) string {
	switch {
	case isRawT(t):
		return ""
	case t == bigPtrT || t == bigValT:
		return intRule(it, 0)
	case t.Kind() == reflect.Ptr:
		if tg.nilKind != "" && len(it.content) == 0 {
			if it.list != (tg.nilKind == "list") {
				return "wrong-kind-of-empty-value"
			}
			return ""
		}
		return conform(t.Elem(), it, ftag{})
	case isUintKind(t.Kind()):
		return intRule(it, t.Bits()/8)
	case t.Kind() == reflect.Bool:
		if why := intRule(it, 1); why != "" {
			return why
		}
		if len(it.content) == 1 && it.content[0] != 1 {
			return "bad-bool"
		}
		return ""
	case t.Kind() == reflect.String, t.Kind() == reflect.Slice && t.Elem().Kind() == reflect.Uint8:
		if it.list {
			return "list-for-string"
		}
		return ""
	case t.Kind() == reflect.Array && t.Elem().Kind() == reflect.Uint8:
		if it.list {
			return "list-for-string"
		}
		if len(it.content) != t.Len() {
			return "byte-array-length"
		}
		return ""
	case t.Kind() == reflect.Slice || t.Kind() == reflect.Array:
		if !it.list {
			return "string-for-list"
		}
		if t.Kind() == reflect.Array && len(it.children) != t.Len() {
			return "array-arity"
		}
		for _, c := range it.children {
			if why := conform(t.Elem(), c, ftag{}); why != "" {
				return why
			}
		}
		return ""
	case t.Kind() == reflect.Struct:
		if !it.list {
			return "string-for-list"
		}
		k := 0
		for i := 0; i < t.NumField(); i++ {
			f := t.Field(i)
			if f.PkgPath != "" {
				continue
			}
			ft := fieldTag(f)
			if ft.ignored {
				continue
			}
			if ft.tail && f.Type.Elem().Kind() != reflect.Uint8 { // a []byte "tail" field is one ordinary string
				for ; k < len(it.children); k++ {
					if why := conform(f.Type.Elem(), it.children[k], ftag{}); why != "" {
						return why
					}
				}
				return ""
			}
			if k >= len(it.children) {
				if ft.optional {
					return ""
				}
				return "struct-too-few"
			}
			if why := conform(f.Type, it.children[k], ft); why != "" {
				return why
			}
			k++
		}
		if k < len(it.children) {
			return "struct-too-many"
		}
		return ""
	case t.Kind() == reflect.Interface:
		return ""
	}
	return "unsupported-type"
}

// containsRaw reports whether values of t hold undecoded RawValue positions.
func containsRaw(t reflect.Type, seen map[reflect.Type]bool) bool {
	if isRawT(t) {
		return true
	}
	if seen[t] {
		return false
	}
	seen[t] = true
	switch t.Kind() {
	case reflect.Ptr, reflect.Slice, reflect.Array:
		return containsRaw(t.Elem(), seen)
	case reflect.Struct:
		if t == bigValT {
			return false
		}
		for i := 0; i < t.NumField(); i++ {
			if t.Field(i).PkgPath == "" && containsRaw(t.Field(i).Type, seen) {
				return true
			}
		}
	}
	return false
}

// hasOptional reports whether a struct type anywhere in t uses rlp:"optional" (unknown to the reference).
func hasOptional(t reflect.Type, seen map[reflect.Type]bool) bool {
	if seen[t] || t == bigValT {
		return false
	}
	seen[t] = true
	switch t.Kind() {
	case reflect.Ptr, reflect.Slice, reflect.Array:
		return hasOptional(t.Elem(), seen)
	case reflect.Struct:
		for i := 0; i < t.NumField(); i++ {
			f := t.Field(i)
			if f.PkgPath != "" {
				continue
			}
			if fieldTag(f).optional || hasOptional(f.Type, seen) {
				return true
			}
		}
	}
	return false
}

// hasByteArray1 reports whether t contains a [1]byte. go-ethereum v1.9.15 does not re-arm its Stream after
// the single byte 0x00 decoded into a [1]byte, so inside a slice it decodes the same byte forever (the
// reference's defect, fixed upstream later); the reference decoder is not called for such types.
func hasByteArray1(t reflect.Type, seen map[reflect.Type]bool) bool {
	if seen[t] || t == bigValT {
		return false
	}
	seen[t] = true
	switch t.Kind() {
	case reflect.Array:
		if t.Elem().Kind() == reflect.Uint8 {
			return t.Len() == 1
		}
		return hasByteArray1(t.Elem(), seen)
	case reflect.Ptr, reflect.Slice:
		return hasByteArray1(t.Elem(), seen)
	case reflect.Struct:
		for i := 0; i < t.NumField(); i++ {
			if t.Field(i).PkgPath == "" && hasByteArray1(t.Field(i).Type, seen) {
				return true
			}
		}
	}
	return false
}
