package main

// Part (a4): size-class boundaries of the scalar decoders.
//
// The decoders for integers and byte arrays switch implementation with the payload length (decodeBigInt:
// single byte / fits the 32-byte Stream.uintbuf / heap buffer; Stream.uint: <= 8 bytes; readKind: short
// form <= 55 bytes, length-of-length 1, 2, ... bytes; writeBigInt: <= 64 bits / word loop). A canonicity
// check that lives in only one of those branches is invisible to the short-string enumeration (payload
// <= 5 bytes), to the 55/56 header mutations (payload 0xaa.., never a leading zero) and to the generated
// values (canonical by construction). This part therefore enumerates, for every payload length around
// every such boundary, the product
//
//	payload content  x  header form  x  host position  x  scalar target type
//
// and decides every case with the same oracle as the other string parts (evalString): DecodeBytes accepts
// iff the recogniser says the input is canonical RLP and the conformance model says it is the image of a
// value of the type (integers: no leading zero byte, width; byte arrays: exact length); accepted =>
// Encode(Decode(s)) == s; Streams and the reference agree.

import (
	"bytes"
	"fmt"
	"reflect"
)

// payload lengths: around 1 (single byte rule), 8/9 (uint64, Stream.uint), 20 (address), 32/33 (uintbuf,
// hash), 55/56 (short/long form), 64/65 (512 bit, writeBigInt words), 255/256 (1-/2-byte length of length)
var scalarLens = []int{0, 1, 2, 3, 4, 5, 7, 8, 9, 10, 19, 20, 21, 31, 32, 33, 34, 54, 55, 56, 57, 58, 63, 64, 65, 66, 255, 256, 257}

// thorough adds word boundaries, 127/128/129 and the 2-/3-byte length-of-length boundary
var scalarLensThorough = []int{6, 11, 15, 16, 17, 23, 24, 25, 30, 35, 40, 47, 48, 49, 96, 127, 128, 129, 254, 258, 1024, 65535, 65536, 65537}

// scalarThorough: also every long form with 1..8 size bytes (quick: 1, 2, 3, 8)
var scalarThorough bool

type scalarPayload struct {
	b    []byte
	kind string // canonical-int | leading-zero | ...
}

func scalarPayloads(n int) []scalarPayload {
	rep := func(first byte, rest byte) []byte {
		b := bytes.Repeat([]byte{rest}, n)
		b[0] = first
		return b
	}
	switch n {
	case 0:
		return []scalarPayload{{[]byte{}, "empty"}}
	case 1:
		return []scalarPayload{{[]byte{0x00}, "zero-byte"}, {[]byte{0x01}, "byte<80"}, {[]byte{0x7f}, "byte<80"}, {[]byte{0x80}, "byte>=80"}, {[]byte{0xff}, "byte>=80"}}
	}
	out := []scalarPayload{
		{rep(0x01, 0x00), "min-of-length"},
		{rep(0xff, 0xff), "max-of-length"},
		{rep(0x80, 0x01), "high-bit"},
		{rep(0x00, 0xff), "leading-zero"},
		{rep(0x00, 0x00), "all-zero"},
	}
	if n >= 3 {
		b := rep(0x00, 0xab)
		b[1] = 0x00
		out = append(out, scalarPayload{b, "two-leading-zeros"})
	}
	return out
}

type scalarForm struct {
	hdr  []byte
	kind string // canonical | long-form-k | claim-1 | claim+1 ...
}

// scalarForms: every string header for a payload of n bytes: the short form (claim < 56) and long forms with
// 1, 2, 3 and 8 (thorough: 1..8) size bytes (zero padded where the claim is smaller), each claiming n-1 (one byte too long),
// n, and n+1 (truncated) bytes; plus "no header" for a single byte < 0x80.
func scalarForms(pl []byte) []scalarForm {
	out := headerForms(len(pl), false)
	if len(pl) == 1 && pl[0] < 0x80 {
		out = append(out, scalarForm{[]byte{}, "bare-byte"})
	}
	return out
}

// headerForms: every string (list) header for a payload of n bytes, see scalarForms.
func headerForms(n int, list bool) []scalarForm {
	short, long := byte(0x80), byte(0xb7)
	if list {
		short, long = 0xc0, 0xf7
	}
	var out []scalarForm
	for _, d := range []int{0, -1, +1} {
		claim := n + d
		if claim < 0 {
			continue
		}
		dn := [3]string{"claim-1", "", "claim+1"}[d+1]
		if claim < 56 {
			out = append(out, scalarForm{[]byte{short + byte(claim)}, "short" + dn})
		}
		for _, k := range []int{1, 2, 3, 4, 5, 6, 7, 8} {
			if !scalarThorough && k > 3 && k < 8 {
				continue
			}
			if k < 8 && claim>>(8*uint(k)) != 0 {
				continue
			}
			h := make([]byte, 1+k)
			h[0] = long + byte(k)
			for i, x := k, claim; i >= 1; i, x = i-1, x>>8 {
				h[i] = byte(x)
			}
			out = append(out, scalarForm{h, fmt.Sprintf("long%d%s", k, dn)})
		}
	}
	return out
}

func listWrap(items ...[]byte) []byte {
	var pl []byte
	for _, it := range items {
		pl = append(pl, it...)
	}
	if len(pl) < 56 {
		return append([]byte{0xc0 + byte(len(pl))}, pl...)
	}
	var be []byte
	for x := len(pl); x > 0; x >>= 8 {
		be = append([]byte{byte(x)}, be...)
	}
	return append(append([]byte{0xf7 + byte(len(be))}, be...), pl...)
}

// host positions of a scalar and the input that puts the scalar encoding e there
var scalarHosts = []struct {
	name string
	wrap func(e []byte) []byte
	typ  func(t reflect.Type) reflect.Type // nil result: host not built for t
}{
	{"top", func(e []byte) []byte { return e }, func(t reflect.Type) reflect.Type { return t }},
	{"field", func(e []byte) []byte { return listWrap([]byte{0x01}, e, []byte{0x02}) }, func(t reflect.Type) reflect.Type {
		return reflect.StructOf([]reflect.StructField{{Name: "A", Type: u64T}, {Name: "X", Type: t}, {Name: "B", Type: u64T}})
	}},
	{"elem", func(e []byte) []byte { return listWrap(e) }, func(t reflect.Type) reflect.Type { return reflect.SliceOf(t) }},
	{"elem2", func(e []byte) []byte { return listWrap([]byte{0x80}, e) }, func(t reflect.Type) reflect.Type { return reflect.SliceOf(t) }},
	{"optional", func(e []byte) []byte { return listWrap([]byte{0x01}, e) }, func(t reflect.Type) reflect.Type {
		// pointer-typed so that an explicit empty item is not the zero value (that is D21, decided elsewhere)
		if t.Kind() != reflect.Ptr {
			t = reflect.PtrTo(t)
		}
		return reflect.StructOf([]reflect.StructField{{Name: "A", Type: u64T}, {Name: "X", Type: t, Tag: `rlp:"optional"`}})
	}},
	{"tail", func(e []byte) []byte { return listWrap([]byte{0x01}, e, e) }, func(t reflect.Type) reflect.Type {
		return reflect.StructOf([]reflect.StructField{{Name: "A", Type: u64T}, {Name: "T", Type: reflect.SliceOf(t), Tag: `rlp:"tail"`}})
	}},
}

type scalarT struct {
	name string
	t    reflect.Type
}

func scalarTypes() []scalarT {
	out := []scalarT{
		{"*big.Int", bigPtrT}, {"big.Int", bigValT},
		{"uint64", u64T}, {"uint", reflect.TypeOf(uint(0))}, {"uint32", reflect.TypeOf(uint32(0))}, {"uint16", reflect.TypeOf(uint16(0))}, {"uint8", reflect.TypeOf(uint8(0))},
		{"bool", reflect.TypeOf(false)}, {"[]byte", reflect.TypeOf([]byte(nil))}, {"string", reflect.TypeOf("")},
	}
	for _, n := range []int{0, 1, 2, 8, 9, 20, 32, 33, 55, 56, 57, 64, 256} {
		out = append(out, scalarT{fmt.Sprintf("[%d]byte", n), reflect.ArrayOf(n, reflect.TypeOf(uint8(0)))})
	}
	return out
}

// scalarTargets[host] = the target types of that host position.
var scalarTargets = map[string][]*target{}

func allTargets() []*target {
	out := append([]*target{}, targets...)
	for _, h := range scalarHosts {
		out = append(out, scalarTargets[h.name]...)
	}
	return out
}

func initScalarTargets() {
	for _, h := range scalarHosts {
		if h.name == "elem2" {
			scalarTargets[h.name] = scalarTargets["elem"]
			continue
		}
		for _, st := range scalarTypes() {
			if st.t.Kind() == reflect.Uint8 && (h.name == "elem" || h.name == "tail") {
				continue // []uint8 is a byte string, not a list of integers
			}
			if st.t == bigValT && h.name == "optional" {
				continue // same Go type as optional:*big.Int
			}
			kt := h.typ(st.t)
			name := st.name
			if h.name != "top" {
				name = h.name + ":" + st.name
			}
			t := &target{name: name, kt: kt, gt: kt}
			// the reference has no optional tag, and loops forever on 00 into a nested [1]byte
			if h.name == "optional" || (h.name != "top" && hasByteArray1(kt, map[reflect.Type]bool{})) {
				t.gt = nil
			}
			scalarTargets[h.name] = append(scalarTargets[h.name], t)
		}
	}
}

type scalarInput struct {
	host string
	b    []byte
	cls  string // size class for counting: len|content|form
}

func scalarInputs() []scalarInput {
	var out []scalarInput
	lens := scalarLens
	if scalarThorough {
		lens = append(append([]int{}, scalarLens...), scalarLensThorough...)
	}
	for _, n := range lens {
		for _, pl := range scalarPayloads(n) {
			for _, f := range scalarForms(pl.b) {
				e := append(append([]byte{}, f.hdr...), pl.b...)
				for _, h := range scalarHosts {
					out = append(out, scalarInput{h.name, h.wrap(e), fmt.Sprintf("%d|%s|%s", n, pl.kind, f.kind)})
				}
			}
		}
	}
	return out
}

func evalScalarInput(in scalarInput, cx *ctx) {
	it, reason := canonical(in.b)
	for _, t := range scalarTargets[in.host] {
		evalString(t, in.b, it, reason, cx, "scalars")
	}
	cx.st.add("scalar_inputs", 1)
	if reason == "" {
		cx.st.add("scalar_inputs_canonical", 1)
	}
	cx.st.dist("scalar_size_classes", in.host+"|"+in.cls)
}
