package main

// This file holds no code: it records, next to the checker, what the check reports on the unchanged
// repository and which mutants it was shown to catch. (The same text is returned in the author's report.)
//
// # Findings on the unchanged /repo (two defects, three signatures; both reproduce 5/5 and via --replay)
//
// D21 — rlp:"optional": an explicit trailing empty item is accepted although the encoder never emits it.
//
//	C16|type=struct-optional2|input-class=trailing-empty-items-for-optional-fields|oracle=reencode-differs
//	C16|type=struct-nil-optional|input-class=trailing-empty-items-for-optional-fields|oracle=reencode-differs
//
// Where: lib/rlp/decode.go:426-446 (makeStructDecoder, loop over fields) versus lib/rlp/encode.go
// makeStructWriter (the lastField loop that drops trailing optional fields whose value IsZero()).
// Minimal input: c2 01 80 decoded into struct{A uint; B uint `rlp:"optional"`} is accepted as {1,0}, which
// encodes to c1 01. Both c1 01 and c2 01 80 are accepted and give the same value, i.e. the accepted string is
// not the canonical encoding of the value it decodes to (two byte strings, two hashes, one value). Inherited
// from go-ethereum >= 1.10 (the v1.9.15 reference has no optional tag). No go-kardia type uses the tag today,
// so no chain data is affected: latent malleability for the first type that adopts it.
// Suggested minimal additive fix (decoder only, no format change): in the dec closure of makeStructDecoder
// remember the index of the last field actually read from the input; after the loop, if that field is
// optional and val.Field(idx).IsZero(), return &decodeError{msg: "non-canonical trailing optional field", typ: typ}.
//
// D22 — types.Header: the RLP form silently drops Time, so Hash() changes across an RLP encode/decode.
//
//	C16|type=Header|input-class=nonzero-time|oracle=hash-preserved
//
// Where: types/block.go:48 (Time time.Time) and types/gen_header_rlp.go:15-16 (the generated encoder writes
// an empty list for the time because time.Time has no exported field; the reflection decoder reads an empty
// list into it). Minimal input: chain case Header #4 = Header{Height:0, Time:1970-01-01T00:00:00Z, ...}; any
// header with a non-zero Time: EncodeToBytes -> DecodeBytes succeeds, all other fields equal, Time comes back
// as 0001-01-01 and back.Hash() != h.Hash() (the protobuf hash covers the time). 432 of 648 enumerated headers
// (all with non-zero time); the 216 zero-time ones keep hash and fields; the generated encoder is byte-identical
// to the reference on a mirror struct in all 648. The property names headers-by-RLP explicitly. Nothing in the
// repository decodes a header from RLP (protobuf is used on the wire and on disk), so this is a trap for future
// use: two headers differing only in time have the same RLP bytes.
// Suggested minimal fix: delete the unused generated Header.EncodeRLP, or give Header an EncodeRLP/DecodeRLP
// pair that writes uint64(Time.UnixNano()) in place of the empty list (the RLP image of a header is neither
// persisted nor signed). Otherwise list the signature as known.
//
// Not reported (documented behaviour, weakest reading, listed under assumptions):
//   - RawValue positions are unvalidated: DecodeBytes(81 00, &RawValue) and Stream.Raw accept a wrapped single
//     byte that Split/CountValues reject; list content inside a RawValue may be arbitrary
//     (info_rawvalue_unvalidated_content_accepted).
//   - documented lossy nil mapping (nil pointers to structs/arrays/pointers/[N>=1]byte, **big.Int, non-nil
//     pointer to an empty value of the other kind under nilString/nilList): such values are not generated.
//   - the go-ethereum v1.9.15 reference loops forever on byte 00 decoded into a [1]byte inside a slice (its
//     defect): the reference decoder is not called for generated types containing a nested [1]byte.
//   - lib/rlp and the reference never disagreed on accept/reject nor on a decoded value (disagreements_checked = 0).
//
// # Mutants (patches in /verif/mutants/c16-*.patch; quick tier against a scratch worktree; "new" = violation
// signatures beyond the three above; the listing is capped at 20 signatures)
//
//	mutant                                  place                                   repo tests   caught  new  first new signature
//	m43-bigint-wrapped-single-byte  (M43)   decode.go decodeBigInt size==1 check    FAIL         yes      1   type=*big.Int|input-class=single-byte-wrapped|oracle=noncanonical-accepted
//	m43-bytes-wrapped-single-byte   (M43)   decode.go Stream.Bytes size==1 check    FAIL         yes      9   type=*[]byte|input-class=single-byte-wrapped|oracle=noncanonical-accepted (also []byte, string, interface{}, nested)
//	m43-bytearray-wrapped-single-byte (M43) decode.go decodeByteArray size==1 check FAIL         yes      1   type=[1]byte|input-class=single-byte-wrapped|oracle=noncanonical-accepted
//	m44-bigint-leading-zero         (M44)   decode.go decodeBigInt ErrCanonInt      FAIL         yes      2   type=*big.Int|input-class=int-leading-zero|oracle=noncanonical-accepted
//	m44-uint-zero-byte              (M44)   decode.go Stream.uint byteval==0        FAIL         yes     13   type=*uint|input-class=int-leading-zero|oracle=noncanonical-accepted (also uint64, uint8, bool, []uint, structs)
//	m44-uint-leading-zero           (M44)   decode.go readUint leading zero         FAIL         yes     18   input-class=size-leading-zero / int-leading-zero|oracle=noncanonical-accepted
//	uint-wrapped-single-byte                decode.go Stream.uint v<128             FAIL         yes     10   type=*uint|input-class=single-byte-wrapped|oracle=noncanonical-accepted (also uint64, uint8, []uint, structs)
//	bool-any-nonzero                        decode.go Stream.Bool                   FAIL         yes      1   type=bool|input-class=bad-bool|oracle=nonconforming-accepted
//	value-size-limit                        decode.go Kind() ErrValueTooLarge       FAIL         yes     10   type=*[]byte|input-class=huge-size-header:string@top|oracle=alloc-bound (also []byte, string, interface{}, RawValue, *big.Int; list@top)
//	trailing-bytes                          decode.go DecodeBytes r.Len()>0         pass         yes     18   input-class=trailing-bytes|oracle=noncanonical-accepted
//	long-form-short-string                  decode.go readKind size<56 (string)     FAIL         yes     19   input-class=long-form-short-payload|oracle=noncanonical-accepted
//	long-list-size-55                       decode.go readKind size<56 -> <55 (list) pass        yes     12   input-class=long-form-short-payload|oracle=noncanonical-accepted (57-byte boundary inputs)
//	listend-extra-elements                  decode.go ListEnd listLimit>0 -> >1     FAIL         yes      6   type=[2]uint|input-class=canonical|oracle=stream-consumed-length
//	nilptr-byte-kind                        decode.go makeNilPtrDecoder kind!=Byte  FAIL         yes      8   part=values|leaf=[1]byte|oracle=decode-of-encoding-fails; type=struct-nil-optional|input-class=canonical|oracle=canonical-rejected
//	readbytes-wrapped-single-byte           decode.go Stream.ReadBytes size==1      pass         yes      1   type=untyped-api|input-class=single-byte-wrapped|oracle=stream-readbytes-disagrees
//	raw-split-wrapped-single-byte           raw.go readKind single byte rule        FAIL         yes      6   type=untyped-api|input-class=canonical-header|oracle=countvalues-disagrees; ...|oracle=split-noncanonical-accepted
//	raw-readsize-short                      raw.go readSize s<56                    FAIL         yes      8   type=untyped-api|input-class=canonical-header|oracle=countvalues-disagrees; ...|oracle=split-noncanonical-accepted
//	raw-splituint64-zero-byte               raw.go SplitUint64 content[0]==0        FAIL         yes      1   type=untyped-api|oracle=splituint64-disagrees
//	appenduint64-7bytes                     raw.go AppendUint64 i<1<<56 -> <=       pass         yes      1   part=values|leaf=uint64|oracle=encoder-entrypoints-disagree
//	iterator-skip                           iterator.go Next drops a 1-byte tail    pass         yes      1   type=untyped-api|oracle=listiterator-disagrees
//	enc-string-7f                           encode.go writeString <=0x7f -> <       FAIL         yes      2   part=values|leaf=string|oracle=encoder-emits-noncanonical
//	enc-bytearray1                          encode.go writeLengthOneByteArray       FAIL         yes      2   part=values|leaf=[1]byte|oracle=encoder-emits-noncanonical
//	enc-headsize-56                         encode.go headsize <56 -> <=56          pass         yes    >=19  part=values|oracle=listsize-disagrees, Transaction size
//	enc-listend-56                          encbuffer.go listEnd <56 -> <=56        pass         yes    >=19  part=values|oracle=encoder-emits-noncanonical
//	enc-bigint-length                       encbuffer.go writeBigInt length         FAIL         yes    >=20  part=values|leaf=*big.Int|oracle=decode-of-encoding-fails
//
//	seeded-b-bigint-leading-zero-over-32    decode.go decodeBigInt: leading-zero    pass         yes     12   type=*big.Int|input-class=int-leading-zero|oracle=noncanonical-accepted
//	  (independently seeded, /verif/seeded/C16b)  check lost in the >32-byte branch                               (also big.Int, field:/elem:/optional:/tail: hosts, Transaction/StateAccount/BlockInfo|leading-zero-int)
//
// The seeded change above was MISSED by the first version of this check (quick and thorough exit 0). What
// excluded it: a non-canonical integer reached a big.Int decoder only (1) in the alphabet strings, whose
// payload is at most 5 bytes, and (2) in the 55/56/255/256 header mutations, whose payload is 0xaa.. and never
// starts with a zero byte; integers longer than 32 bytes were only ever produced canonically (generated
// values, chain types). decodeBigInt has three size classes (single byte / fits the 32-byte uintbuf / heap
// buffer) and the seeded change removed the leading-zero check from the third one only. Added in response:
// scalars.go (part a4: payload length classes 0..257, thorough ..65537, x contents x header forms x claimed
// size -1/0/+1 x host position x 25 scalar types = 112 targets, 13 722 inputs / ~310 000 evaluations in quick,
// < 1 s) and the NoncanonicalInt chain family (transactions, accounts, block infos with zero-padded integers
// of 2..256 bytes, 287 cases). Same oracle as every other string part: accept iff recogniser + conformance
// model say canonical image of the type, and accepted => re-encoding == input.
//
// Regression after adding part (a4), with D21/D22 now listed as known (so exit 1 means an unlisted signature):
// all 26 patches exit 1 in the quick tier; the seeded one three times with the same 12 signatures. The host-
// prefixed scalar targets raise the signature counts of the integer / single-byte mutants (m43-bigint 9,
// m43-bytearray 5, m43-bytes 17, m44-bigint 13, bool 5, enc-string-7f 6, enc-bytearray1 6; the rest are
// unchanged or capped at 20 listed).
//
//	seeded-c-stream-kind-drops-cached-error decode.go Stream.Kind cached path       pass         yes      6   type=Transaction|input-class=outer:long-form-short-payload|oracle=noncanonical-accepted
//	  (independently seeded, /verif/seeded/C16c)  returns nil instead of s.kinderr   (lib/rlp+types)              type=stream-api|input-class=faulty-header|oracle=kind-not-idempotent, ...|faulty-header-op-succeeds,
//	                                                                                                              ...|end-of-input|kind-not-idempotent, ...|end-of-input|stream-model-disagrees, ...|unpredicted-state|kind-not-idempotent
//
// The second seeded change was MISSED as well (quick exit 0). What excluded it: every typed decode in the check
// went through reflection-built decoders, which act on the error of their FIRST Kind() call; the untyped walk
// (strings.go walk) also stops at the first error. Nothing looked at the same value twice, so a Kind() that
// forgets its cached header error was invisible; and the only repository code that does look twice
// (Transaction.DecodeRLP: Kind() for the size cache, then Decode) was only ever fed canonical transactions and
// short alphabet strings that are not transactions. Added in response:
//   - streamapi.go, part (a5): every sequence of <= 4 (thorough 5) operations over {Kind, List, ListEnd, Bytes, Uint,
//     Raw, Decode(RawValue), Bool} on a fresh NewStream / NewListStream for 978 inputs with canonical, boundary and
//     faulty headers (4 577 040 sequences / 17.7 M operations in quick, ~4 s; 36.6 M sequences in thorough),
//     each step against a reference model of the protocol built on recog.go header(): Kind() idempotent in kind,
//     size and error; no operation succeeds on a faulty header; EOL / io.EOF exactly at the end; outputs of
//     well-formed values. 94 % of the operations are predicted; the rest is deliberately left open (after a failure
//     that consumed content, after ListEnd with a looked-at value, and the header-slack overrun below).
//   - chainhdr.go, part (c2): for Transaction (small zero-signature, small create, 40/60 bytes of data), Log,
//     LogForStorage (incl. legacy format), Receipt, ReceiptForStorage, BlockInfo, StateAccount, Header: every
//     other header form of the outer list, the first inner list and the first non-empty inner string, alone, in a
//     list, behind a canonical sibling (1 899 cases quick, 3 651 thorough): accepted => canonical and re-encoding
//     identical; the 144 canonical controls must be accepted.
//
// Observation made while building the stream model (NOT reported as a violation): inside a list, Stream.Kind()
// compares the size of the value ahead with the list limit taken BEFORE the header bytes are read
// (decode.go Kind(): `inList, listLimit := s.listLimit()` precedes readKind). An element that overruns its list
// by no more than its own header length (c1 c1 01: list of 1 byte holding a list header that claims 1 byte) gets no
// error from Kind(); a string is then refused by the read (ErrElemTooLarge), but List() ENTERS such a list and the
// parent's remaining size wraps around to ~2^64, so the parent can never be finished: every decode of such input
// fails later (checked: no typed target accepts any of these strings, input limit still bounds allocation).
// Same code upstream. Minimal hardening: compare against the limit after the header (`listLimit - headerLen`),
// or re-check in List(). Counted as info_stream_element_overrun_within_header_slack.
//
// Regression after parts (a5)/(c2): all 27 patches exit 1 in the quick tier (enc-listend-56 needed the harness to
// report a non-canonical instance encoding instead of stopping); the seeded-c patch twice with the same 6 signatures.
//
// Race pass (RACEPASS + racepass.go, added after a seeded change in lib/merkle showed that a cooperative enumeration
// cannot see shared scratch state): run.sh builds the checker with -race and runs C16_RACE_PASS=1 once before the main
// run: 8 goroutines behind a barrier on private values; phase A = first use of cold types (7 cases on 5 struct types
// shared by all goroutines and first used at the same moment, 3 reflect.StructOf types per goroutine, nil / nilList /
// nilString / optional / tail tags, RawValue, Transaction / Receipt / ReceiptForStorage / Log / StateAccount; expected
// bytes from the go-ethereum reference so that lib/rlp's type cache is cold); phase B = 250 fixed iterations x 125
// results (big integers of 13 size classes x 4 leading bytes incl. refusal of the zero-padded form, composite values,
// RawValue, Encode to a writer, EncodeToReader read fully / piecewise past EOF / abandoned, DecodeBytes, Stream and
// ListStream sequences, Split / CountValues / iterator / SplitUint64 / AppendUint64, chain types with hashes and sizes),
// every result compared with the value computed single-threaded. About 3 s under -race (plus the -race build, cached).
// Unchanged tree: race_pass clean (no detector report, no differing result). Two mutants of my own demonstrate it:
//
//	shared-scratch-buffer                   decode.go decodeBigInt: package-level    pass (also   yes      1   C16|oracle=data-race|at=lib/rlp.(*Stream).readFull   (3/3 runs)
//	                                        scratch instead of Stream.uintbuf        with -race)
//	reader-buffer-returned-early            encode.go EncodeToReader: buffer back   pass         yes      1   C16|oracle=data-race|at=lib/rlp.(*encBuffer).reset    (2/2 runs)
//	                                        in the pool while the reader lives
//
// Neither is visible to any enumeration of this check (single-goroutine results are bit-identical). When the pass
// reports a race, observations of the parallel phases that do not reproduce single-threaded are counted
// (observations_under_reported_race_not_reproduced), not reported; a differing result without a detector report
// becomes C16|oracle=concurrent-result-differs-from-single-threaded-value.
//
//	seeded-f-optional-trim-uses-filtered-index  encode.go makeStructWriter: the trim   pass      yes      9   type=struct-optional-skipped|input-class=skipped-field-{before-all,before-optionals,between-optionals}
//	  (independently seeded, /verif/seeded/C16f)      loop indexes val.Field with the                          |oracle={encoding-differs-from-reference,ignored-field-influences-encoding,reencode-differs}
//	                                                   position in the filtered list
//
// The fourth seeded change listed here was MISSED (quick exit 0). What excluded it: every struct type with rlp:"optional"
// fields in the check (sOptT, sOpt2T, the generated struct{uint64; E optional; E optional}, the scalar optional host,
// raceSharedOpt) has its skipped fields, if any, AFTER the optional ones or none at all, so the position in the filtered
// RLP field list always equalled the Go struct index; the only type with an rlp:"-" and an unexported field (sNestT) has
// no optional field. Added in response: optskip.go, part (b2): 0..1 required x 1..3 optional uint64 fields with a skipped
// field of either kind (rlp:"-" / unexported; reflect.StructOf can do both, the unexported ones via PkgPath and are set
// through unsafe) in every subset of the gaps, a mixed-type family ([]byte, *uint64, string optionals) and six fixed Go
// types: 231 shapes x every zero/non-zero pattern of all fields incl. the skipped ones = 18 778 cases (< 0.1 s).
// Oracles: reference encoding of the list of non-skipped fields cut after the last non-zero optional; a skipped field
// does not influence the bytes; encode by value == by pointer; round trip and re-encoding from the canonical bytes.
//
// Dropped as equivalent for the property: removing the ErrElemTooLarge test in Stream.Kind (willRead still
// refuses the read, only the error kind changes; the repository's own tests notice the error kind).
