package main

import (
	"fmt"
	"math/big"
	"strconv"
	"strings"
	"time"

	"github.com/kardiachain/go-kardia/configs"
	"github.com/kardiachain/go-kardia/kai/kaidb/memorydb"
	"github.com/kardiachain/go-kardia/kai/rawdb"
	"github.com/kardiachain/go-kardia/kai/state/cstate"
	"github.com/kardiachain/go-kardia/lib/common"
	"github.com/kardiachain/go-kardia/lib/crypto"
	"github.com/kardiachain/go-kardia/mainchain/genesis"
	kproto "github.com/kardiachain/go-kardia/proto/kardiachain/types"
	"github.com/kardiachain/go-kardia/trie"
	"github.com/kardiachain/go-kardia/types"
)

// ---------------------------------------------------------------------------------------------
// universe of validators and genesis configurations

const nUni = 5

var uniNames = [nUni]string{"A", "B", "C", "D", "E"}
var uniAddr [nUni]common.Address

// mem is the checker-side model of a membership: power per universe member, 0 = absent.
type mem [nUni]int64

func (m mem) key() string {
	var sb strings.Builder
	for i, p := range m {
		if p > 0 {
			sb.WriteString(uniNames[i])
			sb.WriteString(strconv.FormatInt(p, 10))
		}
	}
	return sb.String()
}

func (m mem) size() int {
	n := 0
	for _, p := range m {
		if p > 0 {
			n++
		}
	}
	return n
}

// list is the full validator list the application reports for membership m (universe order; the
// real code sorts).
func (m mem) list() []*types.Validator {
	var vs []*types.Validator
	for i, p := range m {
		if p > 0 {
			vs = append(vs, types.NewValidator(uniAddr[i], p))
		}
	}
	return vs
}

type config struct {
	Name   string
	Real   bool // genesis block written by the real genesis.SetupGenesisBlock (staking contracts deployed); empty chain only
	Base   mem  // power a member has when it is (re-)added; A,B,C form the genesis set
	Alt    mem  // alternative power for pow:X (0 = no such token)
	Params *kproto.ConsensusParams
	Time   time.Time
}

func initUniverse() {
	// fixed addresses; D sorts before A, E after C, so additions land at both ends of the address order
	hexs := [nUni]string{
		"0x1000000000000000000000000000000000000a0a",
		"0x2000000000000000000000000000000000000b0b",
		"0x3000000000000000000000000000000000000c0c",
		"0x0d00000000000000000000000000000000000d0d",
		"0xee00000000000000000000000000000000000e0e",
	}
	for i, h := range hexs {
		uniAddr[i] = common.HexToAddress(h)
	}
	p0 := &kproto.ConsensusParams{
		Block:    kproto.BlockParams{MaxBytes: 1048577, MaxGas: 20000003, TimeIotaMs: 997},
		Evidence: kproto.EvidenceParams{MaxAgeNumBlocks: 100003, MaxAgeDuration: 47*time.Hour + 59*time.Minute + 7*time.Nanosecond, MaxBytes: 1048573},
	}
	cfgs = []*config{
		// distinct powers (the power order differs from the address order); E ties with A; pow:A ties A with C
		{Name: "cfg0", Base: mem{10, 30, 20, 15, 10}, Alt: mem{20, 12, 0, 0, 0}, Params: p0,
			Time: time.Date(2021, 3, 4, 5, 6, 7, 89, time.UTC)},
		// equal powers (all ties), default parameters
		{Name: "cfg1", Base: mem{1, 1, 1, 1, 1}, Alt: mem{2, 3, 0, 0, 0}, Params: configs.DefaultConsensusParams(),
			Time: time.Date(2022, 12, 31, 23, 59, 59, 999999999, time.UTC)},
		// the real genesis procedure (empty chain only: "restart before block 1" on a real genesis database)
		{Name: "real-genesis", Real: true, Base: mem{1250000000000000, 2500000000000000, 3750000000000000, 0, 0}, Params: configs.TestConsensusParams(),
			Time: time.Date(2021, 3, 4, 5, 6, 7, 0, time.UTC)},
	}
	configs.AddDefaultContract()
}

var cfgs []*config

func configNames() string {
	var s []string
	for _, c := range cfgs {
		if c.Real {
			s = append(s, c.Name+": block 0 written by the real genesis.SetupGenesisBlock with three staked validators (empty chain only)")
			continue
		}
		s = append(s, fmt.Sprintf("%s: genesis A=%d B=%d C=%d, candidates D=%d E=%d, alt powers A=%d B=%d", c.Name, c.Base[0], c.Base[1], c.Base[2], c.Base[3], c.Base[4], c.Alt[0], c.Alt[1]))
	}
	return strings.Join(s, "; ")
}

func configByName(n string) *config {
	for _, c := range cfgs {
		if c.Name == n {
			return c
		}
	}
	return nil
}

func (c *config) genesisMem() mem { return mem{c.Base[0], c.Base[1], c.Base[2], 0, 0} }

func (c *config) genesisDoc() *genesis.Genesis {
	if c.Real {
		return c.realGenesisDoc()
	}
	p := *c.Params
	doc := &genesis.Genesis{ChainID: "c14-" + c.Name, InitialHeight: 1, Timestamp: c.Time, ConsensusParams: &p}
	g := c.genesisMem()
	for i, pw := range g {
		if pw > 0 {
			tokens := new(big.Int).Mul(big.NewInt(pw), configs.PowerReduction)
			doc.Validators = append(doc.Validators, &genesis.GenesisValidator{Name: uniNames[i], Address: uniAddr[i].Hex(), SelfDelegate: tokens.String(), StartWithGenesis: true})
		}
	}
	return doc
}

// realGenesisDoc is a complete genesis specification in the style of the repository's own tests
// (blockchain/reactor_test.go randGenesisDoc): funded validator accounts, self-delegations that are
// multiples of the minimum stake, test chain configuration.
func (c *config) realGenesisDoc() *genesis.Genesis {
	p := *c.Params
	minStake, _ := new(big.Int).SetString("12500000000000000000000000", 10)
	balance, _ := new(big.Int).SetString("500000000000000000000000000", 10)
	doc := &genesis.Genesis{ChainID: "c14-" + c.Name, InitialHeight: 1, Timestamp: c.Time, ConsensusParams: &p,
		Config: configs.TestChainConfig, GasLimit: configs.BlockGasLimit, Alloc: genesis.GenesisAlloc{}}
	for i := 0; i < 3; i++ {
		stake := new(big.Int).Mul(minStake, big.NewInt(int64(i+1)))
		doc.Validators = append(doc.Validators, &genesis.GenesisValidator{
			Name: "c14-validator-" + uniNames[i] + "-padded-to-32-bytes-or-more", Address: uniAddr[i].Hex(), StartWithGenesis: true,
			SelfDelegate: stake.String(), CommissionRate: "5", MaxRate: "20", MaxChangeRate: "5"})
		doc.Alloc[uniAddr[i]] = genesis.GenesisAccount{Balance: new(big.Int).Set(balance)}
	}
	return doc
}

// ---------------------------------------------------------------------------------------------
// alphabet

const (
	tNone = iota
	tRelist
	tAddD
	tAddE
	tRmA // tRmA+i removes universe member i
	tRmB
	tRmC
	tRmD
	tRmE
	tPowA
	tPowB
	tBack0 // tBack0+k: report the membership that was the next-set after block k (0 = genesis)
)

func tokName(t uint8) string {
	switch {
	case t == tNone:
		return "none"
	case t == tRelist:
		return "relist"
	case t == tAddD:
		return "add:D"
	case t == tAddE:
		return "add:E"
	case t >= tRmA && t <= tRmE:
		return "rm:" + uniNames[t-tRmA]
	case t == tPowA:
		return "pow:A"
	case t == tPowB:
		return "pow:B"
	default:
		return "back:" + strconv.Itoa(int(t-tBack0))
	}
}

func tokKind(t uint8) string {
	n := tokName(t)
	if i := strings.IndexByte(n, ':'); i >= 0 {
		return n[:i]
	}
	return n
}

func tokNames(seq []uint8) []string {
	out := make([]string, len(seq))
	for i, t := range seq {
		out[i] = tokName(t)
	}
	return out
}

func parseTokens(names []string) ([]uint8, error) {
	var seq []uint8
	for _, n := range names {
		found := false
		for t := uint8(0); t < tBack0+32; t++ {
			if tokName(t) == n {
				seq = append(seq, t)
				found = true
				break
			}
		}
		if !found {
			return nil, fmt.Errorf("unknown token %q", n)
		}
	}
	return seq, nil
}

// apply is the checker-side model of one application answer. hist[k] is the membership that was the
// next-set after block k (hist[0] = genesis); cur = hist[len(hist)-1]. full tells whether the
// application reports a (full) list or nothing.
func apply(cfg *config, t uint8, hist []mem) (next mem, full bool, ok bool) {
	cur := hist[len(hist)-1]
	next = cur
	switch {
	case t == tNone:
		return cur, false, true
	case t == tRelist:
		return cur, true, true
	case t == tAddD || t == tAddE:
		i := 3 + int(t-tAddD)
		if cur[i] != 0 {
			return next, true, false
		}
		next[i] = cfg.Base[i]
		return next, true, true
	case t >= tRmA && t <= tRmE:
		i := int(t - tRmA)
		if cur[i] == 0 || cur.size() < 2 {
			return next, true, false
		}
		next[i] = 0
		return next, true, true
	case t == tPowA || t == tPowB:
		i := int(t - tPowA)
		if cur[i] == 0 || cfg.Alt[i] == 0 {
			return next, true, false
		}
		if cur[i] == cfg.Base[i] {
			next[i] = cfg.Alt[i]
		} else {
			next[i] = cfg.Base[i]
		}
		return next, true, true
	default:
		k := int(t - tBack0)
		if k >= len(hist)-1 {
			return next, true, false
		}
		if hist[k] == cur {
			return next, true, false
		}
		return hist[k], true, true
	}
}

// reducedToken: the alphabet of the extra level {none, add:D, add:E, rm:D, rm:E, back:k}.
func reducedToken(t uint8) bool {
	return t == tNone || t == tAddD || t == tAddE || t == tRmD || t == tRmE || t >= tBack0
}

// enumerate lists every token sequence of length 0..maxLen over the full alphabet and, when
// reducedLen > maxLen, every sequence of length maxLen+1..reducedLen over the reduced alphabet;
// de-duplicated per node by (answer kind, resulting membership) — the first token in alphabet order
// wins, so back:k survives only where it is not a single edit — sorted by length. The applicability
// of tokens does not depend on the configuration's powers (only on presence), so one list serves all
// configurations.
func enumerate(maxLen, reducedLen int) [][]uint8 {
	cfg := cfgs[0]
	top := maxLen
	if reducedLen > top {
		top = reducedLen
	}
	byLen := make([][][]uint8, top+1)
	var rec func(seq []uint8, hist []mem, limit, recordFrom int, allowed func(uint8) bool)
	rec = func(seq []uint8, hist []mem, limit, recordFrom int, allowed func(uint8) bool) {
		if len(seq) >= recordFrom {
			byLen[len(seq)] = append(byLen[len(seq)], append([]uint8(nil), seq...))
		}
		if len(seq) == limit {
			return
		}
		seen := map[string]bool{}
		for t := uint8(0); int(t) < tBack0+len(hist)-1; t++ {
			if !allowed(t) {
				continue
			}
			next, full, ok := apply(cfg, t, hist)
			if !ok {
				continue
			}
			k := "N"
			if full {
				k = "L" + next.key()
			}
			if seen[k] {
				continue
			}
			seen[k] = true
			rec(append(seq, t), append(hist, next), limit, recordFrom, allowed)
		}
	}
	rec(nil, []mem{cfg.genesisMem()}, maxLen, 0, func(uint8) bool { return true })
	if reducedLen > maxLen {
		rec(nil, []mem{cfg.genesisMem()}, reducedLen, maxLen+1, reducedToken)
	}
	var out [][]uint8
	for _, g := range byLen {
		out = append(out, g...)
	}
	return out
}

// ---------------------------------------------------------------------------------------------
// driving the real store

func safely(f func()) (panicked bool, val string) {
	defer func() {
		if p := recover(); p != nil {
			panicked = true
			val = fmt.Sprintf("%v", p)
			if len(val) > 300 {
				val = val[:300]
			}
		}
	}()
	f()
	return
}

// stats are per-chain counters, flushed into the report once per chain.
type stats struct {
	transitions, storeStates                    int64
	prunedStates, prunedVals                    int64
	lvJudged, lpJudged, loadJudged, pruneJudged int64
	unnamedMismatch, lvPrioDiffers              int64
	modelMismatch, rejected                     int64
	curNextPrioDiffer, returnsEarlier           bool
	memberships                                 []string
	sample                                      interface{}
}

func (s *stats) flush(seq []uint8) {
	if s == nil {
		return
	}
	r.Add("states", s.storeStates)
	r.Add("transitions", s.transitions)
	r.Add("traces_validated_against_impl", s.transitions)
	r.Add("chains", 1)
	r.Max("max_chain_length", int64(len(seq)))
	r.Add("pruned_state_records", s.prunedStates)
	r.Add("pruned_validator_records", s.prunedVals)
	r.Add("loadvalidators_judged", s.lvJudged)
	r.Add("loadparams_judged", s.lpJudged)
	r.Add("load_head_judged", s.loadJudged)
	r.Add("after_prune_judged", s.pruneJudged)
	r.Add("unnamed_field_mismatches", s.unnamedMismatch)
	r.Add("loadvalidators_priority_differs", s.lvPrioDiffers)
	r.Add("model_mismatch", s.modelMismatch)
	r.Add("chains_rejected", s.rejected)
	if s.curNextPrioDiffer {
		r.Add("chains_with_cur_next_priorities_differing", 1)
	}
	if s.returnsEarlier {
		r.Add("chains_returning_to_earlier_membership", 1)
	}
	for _, t := range seq {
		r.Add("token_"+tokKind(t), 1)
	}
	for _, m := range s.memberships {
		r.Distinct("distinct_memberships", m)
	}
	if s.sample != nil && r.WantSample() {
		r.Sample(s.sample)
	}
}

// genesis root: what Genesis.ToBlock puts into the header / WriteAppHash(0, ...) is the root of the
// genesis state trie; any non-zero constant plays that role here.
var genesisRoot = common.BytesToHash(crypto.Keccak256([]byte("c14 genesis state root")))

// writeGenesisBlock mirrors genesis.Genesis.Commit (minus the block-info and chain-config records,
// which the consensus-state store never reads).
func writeGenesisBlock(db *memorydb.Database, cfg *config) *types.Block {
	header := &types.Header{Height: 0, Time: cfg.Time, GasLimit: configs.BlockGasLimit, AppHash: genesisRoot}
	block := types.NewBlock(header, nil, &types.Commit{}, nil, trie.NewStackTrie(nil))
	rawdb.WriteBlock(db, block, block.MakePartSet(types.BlockPartSizeBytes), &types.Commit{})
	rawdb.WriteCanonicalHash(db, block.Hash(), block.Height())
	rawdb.WriteHeadBlockHash(db, block.Hash())
	rawdb.WriteAppHash(db, block.Height(), block.AppHash())
	return block
}

// makeBlock builds the block of height h on top of st the way CreateProposalBlock fills the header.
func makeBlock(cfg *config, h uint64, st cstate.LatestBlockState) (*types.Block, *types.PartSet, *types.Commit) {
	header := &types.Header{
		Height:             h,
		Time:               cfg.Time.Add(time.Duration(h) * (time.Second + 1234567*time.Nanosecond)),
		LastBlockID:        st.LastBlockID,
		ProposerAddress:    st.Validators.Proposer.Address,
		ValidatorsHash:     st.Validators.Hash(),
		NextValidatorsHash: st.NextValidators.Hash(),
		AppHash:            st.AppHash,
		GasLimit:           configs.BlockGasLimit,
	}
	lastCommit := &types.Commit{}
	if h > 1 {
		sigs := make([]types.CommitSig, st.LastValidators.Size())
		for i := range sigs {
			sigs[i] = types.NewCommitSigAbsent()
		}
		lastCommit = types.NewCommit(h-1, 1, st.LastBlockID, sigs)
	}
	block := types.NewBlock(header, nil, lastCommit, nil, trie.NewStackTrie(nil))
	parts := block.MakePartSet(types.BlockPartSizeBytes)
	sigs := make([]types.CommitSig, st.Validators.Size())
	for i := range sigs {
		sigs[i] = types.NewCommitSigAbsent()
	}
	seen := types.NewCommit(h, 1, types.BlockID{Hash: block.Hash(), PartsHeader: parts.Header()}, sigs)
	return block, parts, seen
}

// chain is a built chain: the database and the checker's own record of what was saved.
type chain struct {
	cfg    *config
	db     *memorydb.Database
	n      int         // head height
	saved  []stateSnap // saved[h] = snapshot of the state handed to Save for height h
	hist   []mem       // hist[h] = scripted membership of the next-set after block h
	static bool        // no membership change anywhere
}

// buildChain executes the chain on the real code. A panic or error of the code under test is
// returned as an observation.
func buildChain(cfg *config, seq []uint8, st *stats) (ch *chain, problem *obs) {
	c := Case{Config: cfg.Name, Tokens: tokNames(seq)}
	ch = &chain{cfg: cfg, db: memorydb.New(), static: true}
	ch.hist = []mem{cfg.genesisMem()}
	if cfg.Real {
		if len(seq) != 0 {
			panic("the real-genesis configuration is used with the empty chain only")
		}
		var gerr error
		if p, v := safely(func() { _, _, gerr = genesis.SetupGenesisBlock(ch.db, cfg.genesisDoc()) }); p || gerr != nil {
			// not the subject of C14: the probe is unavailable, say so in the evidence
			r.Set("real_genesis_probe", fmt.Sprintf("unavailable: panic=%v %s err=%v", p, v, gerr))
			return nil, nil
		}
		r.Set("real_genesis_probe", "executed: genesis.SetupGenesisBlock wrote block 0, then LoadStateFromDBOrGenesisDoc, then Load by a new Store")
	} else {
		writeGenesisBlock(ch.db, cfg)
	}
	store := cstate.NewStore(ch.db)

	var state cstate.LatestBlockState
	var err error
	if p, v := safely(func() { state, err = store.LoadStateFromDBOrGenesisDoc(cfg.genesisDoc()) }); p || err != nil {
		return nil, &obs{sig: "C14|save@height0|got=panic-or-error|oracle=no-panic", what: fmt.Sprintf("LoadStateFromDBOrGenesisDoc on a fresh database: panic=%v %s err=%v", p, v, err), c: c}
	}
	st.transitions += 2 // Load (empty) + Save(genesis)
	ch.saved = append(ch.saved, snapState(&state))
	memSeen := map[string]int{ch.hist[0].key(): 0}
	st.memberships = append(st.memberships, cfg.Name+ch.hist[0].key())

	for i, t := range seq {
		h := uint64(i + 1)
		next, full, ok := apply(cfg, t, ch.hist)
		if !ok {
			panic(fmt.Sprintf("inapplicable token %s in %v", tokName(t), tokNames(seq)))
		}
		cur := ch.hist[len(ch.hist)-1]
		if next != cur {
			ch.static = false
			if k, was := memSeen[next.key()]; was && k < len(ch.hist)-1 {
				st.returnsEarlier = true
			}
		}
		var reported []*types.Validator
		if full {
			reported = next.list()
		}

		// SaveBlock, then CommitAndValidateBlockTxs (writeBlockWithState, writeHeadBlock), as finalizeCommit / ApplyBlock order them
		block, parts, seen := makeBlock(cfg, h, state)
		blockID := types.BlockID{Hash: block.Hash(), PartsHeader: parts.Header()}
		rawdb.WriteBlock(ch.db, block, parts, seen)
		prevRoot := rawdb.ReadAppHash(ch.db, h-1)
		bh := block.Hash()
		appHash := common.BytesToHash(crypto.Keccak256(prevRoot.Bytes(), bh.Bytes()))
		b := ch.db.NewBatch()
		rawdb.WriteCanonicalHash(b, block.Hash(), h)
		rawdb.WriteAppHash(b, h, appHash)
		b.Write()
		b = ch.db.NewBatch()
		rawdb.WriteCanonicalHash(b, block.Hash(), h)
		rawdb.WriteHeadBlockHash(b, block.Hash())
		b.Write()

		// ApplyBlock: calculateValidatorSetUpdates, updateState, AppHash, Save
		var newState cstate.LatestBlockState
		var uerr error
		if p, v := safely(func() {
			valUpdates := cstate.VerifC14CalculateValidatorSetUpdates(state.NextValidators.Validators, reported)
			newState, uerr = cstate.VerifC14UpdateState(state, blockID, block.Header(), valUpdates)
		}); p {
			return nil, &obs{sig: "C14|updateState|got=panic|oracle=no-panic", what: "updateState panicked: " + v, c: c}
		}
		if uerr != nil {
			st.rejected++
			return nil, nil
		}
		newState.AppHash = appHash
		snap := snapState(&newState)
		if p, v := safely(func() { store.Save(newState) }); p {
			return nil, &obs{sig: "C14|save|got=panic|oracle=no-panic", what: fmt.Sprintf("Store.Save at height %d panicked: %s", h, v), c: c}
		}
		st.transitions++
		ch.saved = append(ch.saved, snap)
		ch.hist = append(ch.hist, next)
		if _, was := memSeen[next.key()]; !was {
			memSeen[next.key()] = len(ch.hist) - 1
			st.memberships = append(st.memberships, cfg.Name+next.key())
		}
		// harness self-check: the scripted membership is what the real updateState produced
		if snap.Next.members() != modelMembers(next) {
			st.modelMismatch++
		}
		if snap.Cur.members() == snap.Next.members() && snap.Cur.priorities() != snap.Next.priorities() {
			st.curNextPrioDiffer = true
		}
		state = newState
	}
	ch.n = len(seq)
	st.storeStates++
	return ch, nil
}

// modelMembers renders a scripted membership in the order the real set uses (power descending,
// then address ascending) — only used for the harness self-check.
func modelMembers(m mem) string {
	type e struct {
		a common.Address
		p int64
	}
	var es []e
	for i, p := range m {
		if p > 0 {
			es = append(es, e{uniAddr[i], p})
		}
	}
	for i := 1; i < len(es); i++ {
		for j := i; j > 0; j-- {
			a, b := es[j-1], es[j]
			if a.p < b.p || (a.p == b.p && strings.Compare(string(a.a.Bytes()), string(b.a.Bytes())) > 0) {
				es[j-1], es[j] = b, a
			}
		}
	}
	var sb strings.Builder
	for _, x := range es {
		fmt.Fprintf(&sb, "%x:%d ", x.a.Bytes()[:2], x.p)
	}
	return sb.String()
}

type kv struct{ k, v []byte }

func dumpDB(db *memorydb.Database) []kv {
	it := db.NewIterator(nil, nil)
	defer it.Release()
	var out []kv
	for it.Next() {
		out = append(out, kv{common.CopyBytes(it.Key()), common.CopyBytes(it.Value())})
	}
	return out
}

func restoreDB(kvs []kv) *memorydb.Database {
	db := memorydb.NewWithCap(len(kvs))
	for _, e := range kvs {
		db.Put(e.k, e.v)
	}
	return db
}
