// C14 — the consensus state survives a save/load round trip unchanged; LoadValidators(h) answers with
// the set entitled to sign h; pruning never removes anything needed to load a kept state.
//
// Engine E2 (explicit-state search on the real cstate.Store over an in-memory kaidb): every chain of
// <= L states produced by the REAL updateState from the REAL MakeGenesisState over a per-height
// alphabet of application answers (no change / same list again / add / remove / change power / return
// to an earlier membership), saved in order with Store.Save exactly as BlockExecutor.ApplyBlock does;
// then, on a copy of the database, every prune range [from,to); then Load, LoadValidators(h),
// LoadConsensusParams(h) for every kept h. See DESIGN.md section 4 / C14 and FINDINGS.md.
//
// Files: main.go (driver, enumeration, replay), chain.go (drives the real store), oracle.go
// (checker-side snapshots, comparison, signatures), MUTANTS.md, suggested-fixes/*.patch.
//
// Expected on the unchanged repository (genuine defects of kai/state/cstate/store.go, see the
// signatures): F1/D8 validator-set records keyed by the priority-blind ValidatorSet.Hash() are
// overwritten by later sets with the same membership (…|resaved=yes|field=*.priorities|proposer);
// F2/D12 Load() at height 0 takes LastBlockID/AppHash from the genesis block (load@height0|field=…);
// F3 PruneState spares only the records referenced by genesis and by state `to`
// (prune|…|kept=above|below). With the three candidate repairs in suggested-fixes/ applied to a
// scratch copy both tiers exit 0.
package main

import (
	"fmt"
	"sort"
	"strings"
	"sync"
	"sync/atomic"
	"time"

	"verif/mc/par"
	"verif/mc/report"
)

var r *report.Run

// Case is the replayable artefact: configuration, the application's answers per height and
// (optionally) one prune range. Prune == nil means "all checks without pruning".
type Case struct {
	Config string     `json:"config"`
	Tokens []string   `json:"tokens"`
	Prune  *[2]uint64 `json:"prune,omitempty"`
}

func (c Case) String() string {
	s := fmt.Sprintf("config=%s chain=[%s]", c.Config, strings.Join(c.Tokens, ","))
	if c.Prune != nil {
		if c.Prune[0] == sweepMark {
			s += " then the offline state pruner's sweep"
		} else {
			s += fmt.Sprintf(" prune=[%d,%d)", c.Prune[0], c.Prune[1])
		}
	}
	return s
}

// obs is one oracle failure observed on one case.
type obs struct {
	sig  string
	what string
	c    Case
}

// best keeps, per signature, the smallest failing case in enumeration order (deterministic output
// regardless of goroutine scheduling) and the number of failing cases.
type bestCase struct {
	o     obs
	order int64
	count int64
}

var (
	bestMu sync.Mutex
	best   = map[string]*bestCase{}
)

func record(order int64, os []obs) {
	if len(os) == 0 {
		return
	}
	bestMu.Lock()
	for _, o := range os {
		b := best[o.sig]
		if b == nil {
			best[o.sig] = &bestCase{o: o, order: order, count: 1}
			continue
		}
		b.count++
		if order < b.order {
			b.o, b.order = o, order
		}
	}
	bestMu.Unlock()
}

func main() {
	r = report.New("C14", "model_checking")
	initUniverse()

	if r.ReplayPath != "" {
		replay()
		return
	}

	maxLen := 4
	if r.Thorough() {
		maxLen = 5
		r.SetDeadline(13 * time.Minute)
	} else {
		r.SetDeadline(50 * time.Second)
	}
	r.Exhaustive(true)

	var order int64
	for _, cfg := range cfgs {
		chains := enumerate(maxLen, maxLen+1)
		if cfg.Real {
			chains = chains[:1] // the empty chain
		} else {
			r.Set("chains_per_config", len(chains))
		}
		// lengths in ascending order with a barrier in between: the first counterexample is the smallest
		lo := 0
		for lo < len(chains) {
			hi := lo
			for hi < len(chains) && len(chains[hi]) == len(chains[lo]) {
				hi++
			}
			group := chains[lo:hi]
			base := order
			done := par.For(int64(len(group)), 8, r.Expired, func(i int64) {
				seq := group[i]
				os, st := checkChain(cfg, seq, nil, false)
				st.flush(seq)
				record(base+i, os)
			})
			if done < int64(len(group)) {
				r.NotExhaustive(fmt.Sprintf("deadline: config %s, chains of length %d: %d of %d done", cfg.Name, len(group[0]), done, len(group)))
			}
			order += int64(len(group))
			lo = hi
			if r.Expired() {
				break
			}
		}
		if r.Expired() {
			break
		}
	}

	// report violations: smallest case per signature, confirmed by 5 re-executions
	var sigs []string
	for s := range best {
		sigs = append(sigs, s)
	}
	sort.Strings(sigs)
	for _, s := range sigs {
		b := best[s]
		r.Add("violating_cases", b.count)
		c := b.o.c
		r.ViolationConfirmed(s, fmt.Sprintf("%s; smallest case: %s; %d failing cases in this run", b.o.what, c, b.count), c, func() string {
			return reproduces(c, s)
		})
	}

	r.Set("rule", fmt.Sprintf("E2: for each genesis configuration (%s) every sequence of <= %d application answers from the alphabet "+
		"{none (empty list), relist (same list in full), add:D, add:E, rm:X for every present X (set stays non-empty), pow:A, pow:B (toggle between two powers), "+
		"back:k (report the membership that was next-set after block k, k>=0, when it is not already one edit away)}, de-duplicated by (answer kind, resulting membership); "+
		"each chain is built on a fresh in-memory database by the real LoadStateFromDBOrGenesisDoc / calculateValidatorSetUpdates / updateState / Store.Save with the "+
		"block, canonical hash, app hash and head pointer of every height written first by the rawdb accessors; the chain is then read back by a new Store (Load, "+
		"LoadValidators(h) and LoadConsensusParams(h) for all h) and, on a copy of the database per range, after PruneState(from,to) for every 0<=from<to<=head; the extra level (length %d) uses the reduced alphabet {none, add:D, add:E, rm:D, rm:E, back:k}; additionally the empty chain on a database whose block 0 was written by the real genesis.SetupGenesisBlock", configNames(), maxLen, maxLen+1))
	r.Assume(
		"the database is kaidb/memorydb; batches are applied atomically (crash cuts inside Save are C05's subject)",
		"blocks are written by the recipe of BlockOperations.SaveBlock + writeBlockWithState + writeHeadBlock (rawdb.WriteBlock, WriteCanonicalHash, WriteAppHash, WriteHeadBlockHash) and the genesis block by the recipe of genesis.Genesis.Commit (header time = genesis time, header app hash = a non-zero state root, WriteAppHash(0, root)); blocks carry no transactions and are not validated (validation is C03/C13)",
		"round trip (weakest reading): only what the statement names is judged — LastBlockHeight (the identity of the state), LastBlockID, LastBlockTime (as an instant), AppHash, ConsensusParams, and for LastValidators / Validators / NextValidators the ordered (address, power) list, every ProposerPriority and the address of the designated Proposer; ChainID, InitialHeight, LastBlockTotalTx, LastHeightValidatorsChanged and LastHeightConsensusParamsChanged are compared but a difference is only counted (coverage key unnamed_field_mismatches), not reported",
		"LoadValidators(h), 1<=h<=head, must return the ordered (address, power) list of the Validators field of the state saved for h-1 (the set that votes on block h); ProposerPriority / Proposer of that answer are NOT judged (counted under loadvalidators_priority_differs); h=0 (nobody signs the genesis block) and h>head (not a past height) are not judged",
		"prune ranges are restricted to to <= head (the property loads 'at the head' after pruning, so the head state is always kept); a height is 'kept' by PruneState(from,to) when it had a record before and lies outside [from,to) as requested by the caller (so height 0 is not judged for from=0 although the implementation keeps it); 'same result' after pruning means the identical rendering (including priorities) of what the same call returned before pruning, and only calls that succeeded before are judged; calls on pruned heights are not judged at all",
		"updateState never changes ConsensusParams, so LoadConsensusParams is exercised with one parameter record per chain (non-default values in configuration cfg0)",
	)

	// vacuity guards
	for _, k := range []string{"none", "relist", "add", "rm", "pow", "back"} {
		r.Require(r.Get("token_"+k) > 0, "alphabet token kind never executed: "+k)
	}
	r.Add("state_pruner_sweep_cases", atomic.LoadInt64(&sweepCases))
	r.Require(r.Get("state_pruner_sweep_cases") > 0, "the offline state pruner's sweep never ran")
	r.Require(r.Get("model_mismatch") == 0, "the checker's membership model disagrees with the NextValidators produced by the real updateState")
	r.Require(r.Get("chains_rejected") == 0, "some scripted validator change was rejected by the real updateState (alphabet not fully executable)")
	r.Require(r.Get("chains_with_cur_next_priorities_differing") > 0, "no saved state had Validators and NextValidators with equal membership and different priorities (priority round trip would be vacuous)")
	r.Require(r.Get("chains_returning_to_earlier_membership") > 0, "no chain returned to an earlier membership")
	r.Require(r.Get("pruned_state_records") > 0 && r.Get("pruned_validator_records") > 0, "pruning never removed a state record and a validator-set record")
	r.Require(r.Get("loadvalidators_judged") > 0 && r.Get("loadparams_judged") > 0 && r.Get("load_head_judged") > 0, "an oracle never ran")
	r.Require(r.DistinctCount("distinct_memberships") >= 8, "fewer than 8 distinct memberships were saved")
	r.Finish()
}

func reproduces(c Case, sig string) string {
	cfg := configByName(c.Config)
	if cfg == nil {
		return "unknown-config"
	}
	seq, err := parseTokens(c.Tokens)
	if err != nil {
		return "bad-tokens"
	}
	os, _ := checkChain(cfg, seq, c.Prune, true)
	for _, o := range os {
		if o.sig == sig {
			return sig
		}
	}
	var got []string
	for _, o := range os {
		got = append(got, o.sig)
	}
	return "not-reproduced; got " + strings.Join(got, " ; ")
}

func replay() {
	var c Case
	if err := r.LoadReplay(&c); err != nil {
		fmt.Println("MACHINERY-ERROR cannot load replay file:", err)
		r.Vacuous("replay file unreadable")
		r.Finish()
	}
	cfg := configByName(c.Config)
	seq, err := parseTokens(c.Tokens)
	if cfg == nil || err != nil {
		fmt.Println("MACHINERY-ERROR bad replay case:", c, err)
		r.Vacuous("bad replay case")
		r.Finish()
	}
	fmt.Printf("replaying %s\n", c)
	os, st := checkChain(cfg, seq, c.Prune, true)
	st.flush(seq)
	if len(os) == 0 {
		fmt.Println("observed: the property holds on this case")
	}
	for _, o := range os {
		fmt.Printf("observed: %s: %s\n", o.sig, o.what)
		r.Violation(o.sig, o.what, o.c)
	}
	r.Exhaustive(true)
	r.Finish()
}
