package main

import (
	"fmt"
	"github.com/kardiachain/go-kardia/kai/state/pruner"
	"strings"
	"sync/atomic"

	"github.com/kardiachain/go-kardia/kai/kaidb/memorydb"
	"github.com/kardiachain/go-kardia/kai/state/cstate"
	kproto "github.com/kardiachain/go-kardia/proto/kardiachain/types"
	"github.com/kardiachain/go-kardia/types"
)

// ---------------------------------------------------------------------------------------------
// checker-side snapshots (plain values, nothing shared with the objects of the code under test)

type valSnap struct {
	Addr  string
	Power int64
	Prio  int64
}

type setSnap struct {
	Nil      bool
	Vals     []valSnap
	Proposer string // address of the designated proposer ("" = none)
}

func snapSet(vs *types.ValidatorSet) setSnap {
	if vs == nil {
		return setSnap{Nil: true}
	}
	s := setSnap{}
	for _, v := range vs.Validators {
		if v == nil {
			s.Vals = append(s.Vals, valSnap{Addr: "<nil>"})
			continue
		}
		s.Vals = append(s.Vals, valSnap{Addr: fmt.Sprintf("%x", v.Address.Bytes()[:2]), Power: v.VotingPower, Prio: v.ProposerPriority})
	}
	if vs.Proposer != nil {
		s.Proposer = fmt.Sprintf("%x", vs.Proposer.Address.Bytes()[:2])
	}
	return s
}

// members: ordered (address, power) list.
func (s setSnap) members() string {
	if s.Nil {
		return "<nil>"
	}
	var sb strings.Builder
	for _, v := range s.Vals {
		fmt.Fprintf(&sb, "%s:%d ", v.Addr, v.Power)
	}
	return sb.String()
}

func (s setSnap) priorities() string {
	if s.Nil {
		return "<nil>"
	}
	var sb strings.Builder
	for _, v := range s.Vals {
		fmt.Fprintf(&sb, "%s:%d ", v.Addr, v.Prio)
	}
	return sb.String()
}

func (s setSnap) String() string {
	if s.Nil {
		return "<nil>"
	}
	var sb strings.Builder
	for _, v := range s.Vals {
		fmt.Fprintf(&sb, "%s:p%d:a%d ", v.Addr, v.Power, v.Prio)
	}
	return sb.String() + "proposer=" + s.Proposer
}

type stateSnap struct {
	ChainID          string
	InitialHeight    uint64
	LastBlockHeight  uint64
	LastBlockTotalTx uint64
	LastBlockID      string
	LastBlockTimeNs  int64
	AppHash          string
	Params           string
	LHVC, LHCPC      uint64
	Last, Cur, Next  setSnap
}

func renderParams(p kproto.ConsensusParams) string {
	return fmt.Sprintf("block{%d %d %d} evidence{%d %d %d} validator{%v}", p.Block.MaxBytes, p.Block.MaxGas, p.Block.TimeIotaMs,
		p.Evidence.MaxAgeNumBlocks, int64(p.Evidence.MaxAgeDuration), p.Evidence.MaxBytes, p.Validator.PubKeyTypes)
}

func snapState(s *cstate.LatestBlockState) stateSnap {
	return stateSnap{
		ChainID:          s.ChainID,
		InitialHeight:    s.InitialHeight,
		LastBlockHeight:  s.LastBlockHeight,
		LastBlockTotalTx: s.LastBlockTotalTx,
		LastBlockID:      fmt.Sprintf("%x/%d/%x", s.LastBlockID.Hash.Bytes(), s.LastBlockID.PartsHeader.Total, s.LastBlockID.PartsHeader.Hash.Bytes()),
		LastBlockTimeNs:  s.LastBlockTime.UnixNano(),
		AppHash:          fmt.Sprintf("%x", s.AppHash.Bytes()),
		Params:           renderParams(s.ConsensusParams),
		LHVC:             s.LastHeightValidatorsChanged,
		LHCPC:            s.LastHeightConsensusParamsChanged,
		Last:             snapSet(s.LastValidators),
		Cur:              snapSet(s.Validators),
		Next:             snapSet(s.NextValidators),
	}
}

func (s stateSnap) String() string {
	return fmt.Sprintf("chain=%s init=%d h=%d tx=%d id=%s t=%d app=%s params=%s lhvc=%d lhcpc=%d last=[%s] cur=[%s] next=[%s]",
		s.ChainID, s.InitialHeight, s.LastBlockHeight, s.LastBlockTotalTx, s.LastBlockID, s.LastBlockTimeNs, s.AppHash, s.Params, s.LHVC, s.LHCPC, s.Last, s.Cur, s.Next)
}

// ---------------------------------------------------------------------------------------------
// reading a store back

// readout is everything a new Store answers on one database.
type readout struct {
	load     string // rendering of Load(), "PANIC: ..." or "EMPTY"
	loadSnap *stateSnap
	vals     []string // per height: rendering of LoadValidators(h) or "ERR: ..."/"PANIC: ..."
	valSnaps []*setSnap
	params   []string
}

func bad(s string) bool {
	return strings.HasPrefix(s, "ERR: ") || strings.HasPrefix(s, "PANIC: ") || s == "EMPTY"
}

// read performs Load (when wantLoad) and LoadValidators / LoadConsensusParams for the heights in hs on
// a brand-new Store over db (= what a restarted process sees).
func read(ch *chain, db *memorydb.Database, wantLoad bool, hs []int, st *stats) *readout {
	store := cstate.NewStore(db)
	ro := &readout{vals: make([]string, ch.n+1), valSnaps: make([]*setSnap, ch.n+1), params: make([]string, ch.n+1)}
	if wantLoad {
		var s cstate.LatestBlockState
		if p, v := safely(func() { s = store.Load() }); p {
			ro.load = "PANIC: " + v
		} else if s.IsEmpty() {
			ro.load = "EMPTY"
		} else {
			sn := snapState(&s)
			ro.loadSnap = &sn
			ro.load = sn.String()
		}
		st.transitions++
	}
	for _, h := range hs {
		var vs *types.ValidatorSet
		var err error
		if p, v := safely(func() { vs, err = store.LoadValidators(uint64(h)) }); p {
			ro.vals[h] = "PANIC: " + v
		} else if err != nil {
			ro.vals[h] = "ERR: " + err.Error()
		} else {
			sn := snapSet(vs)
			ro.valSnaps[h] = &sn
			ro.vals[h] = sn.String()
		}
		var cp kproto.ConsensusParams
		if p, v := safely(func() { cp, err = store.LoadConsensusParams(uint64(h)) }); p {
			ro.params[h] = "PANIC: " + v
		} else if err != nil {
			ro.params[h] = "ERR: " + err.Error()
		} else {
			ro.params[h] = renderParams(cp)
		}
		st.transitions += 2
	}
	return ro
}

// ---------------------------------------------------------------------------------------------
// oracles

// resaved tells whether a set with the same (scripted) membership was handed to Save after the set
// at position j, up to the head. Positions: -1 = genesis Validators, k >= 0 = NextValidators of the
// state of height k. Computed from the checker's script, not from the store.
func (ch *chain) resaved(j int) string {
	m := ch.hist[0]
	if j >= 0 {
		m = ch.hist[j]
	}
	for k := j + 1; k <= ch.n; k++ {
		if k >= 0 && ch.hist[k] == m {
			return "yes"
		}
	}
	return "no"
}

func (ch *chain) kind() string {
	if ch.static {
		return "static"
	}
	return "dynamic"
}

// checkRoundTrip compares Load() at the head with the state saved for the head.
func checkRoundTrip(ch *chain, ro *readout, c Case, st *stats) (out []obs) {
	where := "load@head"
	if ch.n == 0 {
		where = "load@height0"
	}
	want := ch.saved[ch.n]
	st.loadJudged++
	if ro.loadSnap == nil {
		got := "panic"
		if ro.load == "EMPTY" {
			got = "empty-state"
		}
		return []obs{{sig: fmt.Sprintf("C14|%s|chain=%s|got=%s|oracle=roundtrip", where, ch.kind(), got),
			what: fmt.Sprintf("Load() after saving height %d: %s", ch.n, ro.load), c: c}}
	}
	got := *ro.loadSnap
	scalar := func(field string, differs bool, w, g interface{}) {
		if differs {
			out = append(out, obs{sig: fmt.Sprintf("C14|%s|field=%s|oracle=roundtrip", where, field),
				what: fmt.Sprintf("Load() at height %d returns %s=%v, the state saved for that height has %v", ch.n, field, g, w), c: c})
		}
	}
	scalar("LastBlockHeight", want.LastBlockHeight != got.LastBlockHeight, want.LastBlockHeight, got.LastBlockHeight)
	scalar("LastBlockID", want.LastBlockID != got.LastBlockID, want.LastBlockID, got.LastBlockID)
	scalar("LastBlockTime", want.LastBlockTimeNs != got.LastBlockTimeNs, want.LastBlockTimeNs, got.LastBlockTimeNs)
	scalar("AppHash", want.AppHash != got.AppHash, want.AppHash, got.AppHash)
	scalar("ConsensusParams", want.Params != got.Params, want.Params, got.Params)
	if want.ChainID != got.ChainID || want.InitialHeight != got.InitialHeight || want.LastBlockTotalTx != got.LastBlockTotalTx ||
		want.LHVC != got.LHVC || want.LHCPC != got.LHCPC {
		st.unnamedMismatch++
	}
	sets := []struct {
		name     string
		w, g     setSnap
		position int
	}{
		{"LastValidators", want.Last, got.Last, ch.n - 2},
		{"Validators", want.Cur, got.Cur, ch.n - 1},
		{"NextValidators", want.Next, got.Next, ch.n},
	}
	for _, s := range sets {
		pos := s.position
		if pos < -1 {
			pos = -1
		}
		class := fmt.Sprintf("chain=%s|resaved=%s", ch.kind(), ch.resaved(pos))
		if s.w.Nil && s.name == "LastValidators" && ch.n == 0 {
			class = "chain=static|resaved=no"
		}
		rep := func(aspect, w, g string) {
			out = append(out, obs{sig: fmt.Sprintf("C14|%s|%s|field=%s.%s|oracle=roundtrip", where, class, s.name, aspect),
				what: fmt.Sprintf("Load() at height %d returns %s [%s], the state saved for that height has [%s]", ch.n, s.name, g, w), c: c})
		}
		if s.w.members() != s.g.members() {
			rep("members", s.w.String(), s.g.String())
			continue
		}
		// a wrong proposer that comes with wrong priorities is the same failure; it gets its own
		// signature only when the priorities are right
		if s.w.priorities() != s.g.priorities() {
			rep("priorities", s.w.String(), s.g.String())
		} else if s.w.Proposer != s.g.Proposer {
			rep("proposer", s.w.String(), s.g.String())
		}
	}
	return out
}

// checkHistory judges LoadValidators(h) and LoadConsensusParams(h) on the unpruned database.
func checkHistory(ch *chain, ro *readout, c Case, st *stats) (out []obs) {
	for h := 0; h <= ch.n; h++ {
		// consensus parameters of height h
		st.lpJudged++
		if want := ch.saved[h].Params; ro.params[h] != want {
			got := "differs"
			if strings.HasPrefix(ro.params[h], "PANIC") {
				got = "panic"
			} else if strings.HasPrefix(ro.params[h], "ERR") {
				got = "error"
			}
			out = append(out, obs{sig: fmt.Sprintf("C14|loadconsensusparams|got=%s|oracle=params-of-height", got),
				what: fmt.Sprintf("LoadConsensusParams(%d) with head %d returns %s, the state saved for that height has %s", h, ch.n, ro.params[h], want), c: c})
		}
		if h == 0 {
			// nobody signs the genesis block; only a panic is reported
			if strings.HasPrefix(ro.vals[0], "PANIC") {
				out = append(out, obs{sig: "C14|loadvalidators|h=0|got=panic|oracle=no-panic", what: "LoadValidators(0): " + ro.vals[0], c: c})
			}
			continue
		}
		st.lvJudged++
		want := ch.saved[h-1].Cur
		if ro.valSnaps[h] == nil {
			got := "error"
			if strings.HasPrefix(ro.vals[h], "PANIC") {
				got = "panic"
			}
			out = append(out, obs{sig: fmt.Sprintf("C14|loadvalidators|chain=%s|got=%s|oracle=entitled-to-sign", ch.kind(), got),
				what: fmt.Sprintf("LoadValidators(%d) with head %d: %s; the set entitled to sign that height is [%s]", h, ch.n, ro.vals[h], want.members()), c: c})
			continue
		}
		g := *ro.valSnaps[h]
		if g.members() != want.members() {
			// name the set that was returned instead, relative to the chain
			got := "other"
			switch {
			case g.members() == ch.saved[h].Cur.members():
				got = "set-of-height+1"
			case g.members() == ch.saved[h].Next.members():
				got = "set-of-height+2"
			case h >= 2 && g.members() == ch.saved[h-1].Last.members():
				got = "set-of-height-1"
			}
			out = append(out, obs{sig: fmt.Sprintf("C14|loadvalidators|chain=%s|got=%s|oracle=entitled-to-sign", ch.kind(), got),
				what: fmt.Sprintf("LoadValidators(%d) with head %d returns [%s]; the set entitled to sign that height is [%s]", h, ch.n, g.members(), want.members()), c: c})
			continue
		}
		if g.priorities() != want.priorities() || g.Proposer != want.Proposer {
			st.lvPrioDiffers++
		}
	}
	return out
}

// checkAfterPrune: every kept height that answered before answers the same after PruneState(from,to).
func checkAfterPrune(ch *chain, before, after *readout, from, to int, headKept bool, kept []int, c Case, st *stats) (out []obs) {
	rng := "interior"
	if from <= 1 {
		rng = "from-start"
	}
	pos := func(h int) string {
		switch {
		case h < from:
			return "below"
		case h == to:
			return "at-to"
		default:
			return "above"
		}
	}
	outcome := func(s string) string {
		switch {
		case strings.HasPrefix(s, "PANIC"):
			return "panic"
		case strings.HasPrefix(s, "ERR"):
			return "error"
		case s == "EMPTY":
			return "empty-state"
		}
		return "differs"
	}
	if headKept && !bad(before.load) {
		st.pruneJudged++
		if after.load != before.load {
			out = append(out, obs{sig: fmt.Sprintf("C14|prune|range=%s|op=Load@head|kept=%s|got=%s|oracle=prune-preserves-kept", rng, pos(ch.n), outcome(after.load)),
				what: fmt.Sprintf("after PruneState(%d,%d) with head %d, Load() gives %s; before pruning it gave %s", from, to, ch.n, after.load, before.load), c: c})
		}
	}
	for _, h := range kept {
		if !bad(before.vals[h]) {
			st.pruneJudged++
			if after.vals[h] != before.vals[h] {
				out = append(out, obs{sig: fmt.Sprintf("C14|prune|range=%s|op=LoadValidators|kept=%s|got=%s|oracle=prune-preserves-kept", rng, pos(h), outcome(after.vals[h])),
					what: fmt.Sprintf("after PruneState(%d,%d) with head %d, LoadValidators(%d) gives %s; before pruning it gave %s", from, to, ch.n, h, after.vals[h], before.vals[h]), c: c})
			}
		}
		if !bad(before.params[h]) {
			st.pruneJudged++
			if after.params[h] != before.params[h] {
				out = append(out, obs{sig: fmt.Sprintf("C14|prune|range=%s|op=LoadConsensusParams|kept=%s|got=%s|oracle=prune-preserves-kept", rng, pos(h), outcome(after.params[h])),
					what: fmt.Sprintf("after PruneState(%d,%d) with head %d, LoadConsensusParams(%d) gives %s; before pruning it gave %s", from, to, ch.n, h, after.params[h], before.params[h]), c: c})
			}
		}
	}
	return out
}

// checkChain builds one chain on the real code and runs every oracle. With only=true just the given
// case is judged (prune == nil: the unpruned checks; else that one range).
func checkChain(cfg *config, seq []uint8, prune *[2]uint64, only bool) ([]obs, *stats) {
	st := &stats{}
	ch, problem := buildChain(cfg, seq, st)
	if problem != nil {
		return []obs{*problem}, st
	}
	if ch == nil {
		return nil, st
	}
	base := Case{Config: cfg.Name, Tokens: tokNames(seq)}
	all := make([]int, ch.n+1)
	for i := range all {
		all[i] = i
	}
	var out []obs
	before := read(ch, ch.db, true, all, st)
	if !only || prune == nil {
		out = append(out, checkRoundTrip(ch, before, base, st)...)
		out = append(out, checkHistory(ch, before, base, st)...)
		if r.WantSample() {
			st.sample = map[string]interface{}{"case": base, "saved_head_state": ch.saved[ch.n].String(), "loaded_head_state": before.load,
				"load_validators": before.vals, "load_consensus_params": before.params}
		}
	}
	if only && prune == nil {
		return out, st
	}
	image := dumpDB(ch.db)
	// ranges with from >= 1 first (PruneState treats from = 0 as 1), so the smallest case names the canonical range
	var ranges [][2]int
	for _, from := range append(seqInts(1, ch.n), 0) {
		for to := from + 1; to <= ch.n; to++ { // to <= head: the head state is always kept
			ranges = append(ranges, [2]int{from, to})
		}
	}
	// the OTHER pruner: the offline state pruner (kai/state/pruner) sweeps the same database and deletes whatever it takes
	// for a stale hash-keyed trie node; nothing of the consensus state may fall under its rule
	ranges = append(ranges, [2]int{-1, -1})
	for _, rg := range ranges {
		from, to := rg[0], rg[1]
		if from == -1 {
			if only && prune[0] != sweepMark {
				continue
			}
			db := restoreDB(image)
			c := base
			c.Prune = &[2]uint64{sweepMark, sweepMark}
			if p, v := safely(func() { pruner.VerifSweep(db, nil) }); p {
				out = append(out, obs{sig: "C14|after=state-sweep|got=panic|oracle=no-panic", what: "the state pruner's sweep panicked: " + v, c: c})
				continue
			}
			st.transitions++
			atomic.AddInt64(&sweepCases, 1)
			after := read(ch, db, true, all, st)
			for _, o := range checkAfterPrune(ch, before, after, 0, 0, true, all, c, st) {
				o.sig = strings.Replace(o.sig, "C14|", "C14|after=state-sweep|", 1)
				o.what = "after the offline state pruner's sweep over the database: " + o.what
				out = append(out, o)
			}
			continue
		}
		if only && (uint64(from) != prune[0] || uint64(to) != prune[1]) {
			continue
		}
		db := restoreDB(image)
		c := base
		c.Prune = &[2]uint64{uint64(from), uint64(to)}
		var ps, pv uint64
		if p, v := safely(func() { ps, pv, _ = cstate.NewStore(db).PruneState(uint64(from), uint64(to)) }); p {
			out = append(out, obs{sig: "C14|prune|got=panic|oracle=no-panic", what: fmt.Sprintf("PruneState(%d,%d) with head %d panicked: %s", from, to, ch.n, v), c: c})
			continue
		}
		st.transitions++
		st.storeStates++
		st.prunedStates += int64(ps)
		st.prunedVals += int64(pv)
		var kept []int
		for h := 0; h <= ch.n; h++ {
			if h < from || h >= to {
				kept = append(kept, h)
			}
		}
		after := read(ch, db, true, kept, st)
		out = append(out, checkAfterPrune(ch, before, after, from, to, true, kept, c, st)...)
	}
	return out, st
}

const sweepMark = ^uint64(0)

var sweepCases int64

func seqInts(lo, hi int) []int {
	var out []int
	for i := lo; i <= hi; i++ {
		out = append(out, i)
	}
	return out
}
