//go:build verif

package common

// Access-only helper for check C18: exact "is this mutex free" probe for a BitArray.

// VerifC18TryLock reports whether the bit array's mutex could be taken (and releases it again).
func (bA *BitArray) VerifC18TryLock() bool {
	if bA == nil {
		return true
	}
	if !bA.mtx.TryLock() {
		return false
	}
	bA.mtx.Unlock()
	return true
}
