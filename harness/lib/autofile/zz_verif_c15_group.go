//go:build verif

// Access for check C15: lets the checker run the group's own head-size check at a chosen moment
// instead of waiting for the ticker (the repository's tests call checkHeadSizeLimit the same way).
package autofile

// VerifC15CheckHeadSizeLimit runs the same head-size check the group's ticker routine runs.
func (g *Group) VerifC15CheckHeadSizeLimit() {
	g.checkHeadSizeLimit()
}
