//go:build verif

// Access for check C20: run the transport's connection upgrade (secret connection, identity checks,
// node-info exchange, self / compatibility rejection) on a connection the checker owns, instead of
// a dialled TCP socket.
package p2p

import (
	"net"

	"github.com/kardiachain/go-kardia/lib/p2p/conn"
)

// VerifC20Upgrade calls mt.upgrade. dialedAddr is nil for an inbound connection.
func (mt *MultiplexTransport) VerifC20Upgrade(c net.Conn, dialedAddr *NetAddress) (*conn.SecretConnection, NodeInfo, error) {
	return mt.upgrade(c, dialedAddr)
}
