//go:build verif

package pex

// Access-only helpers for check C18: the reactor's message codec and a lock probe of the book.

import "github.com/gogo/protobuf/proto"

// VerifC18Decode is the reactor's decodeMsg.
func VerifC18Decode(bz []byte) (proto.Message, error) { return decodeMsg(bz) }

// VerifC18Encode is the reactor's mustEncode.
func VerifC18Encode(pb proto.Message) []byte { return mustEncode(pb) }

// VerifC18BookTryLock reports whether the address book's mutex could be taken (and releases it).
func VerifC18BookTryLock(b AddrBook) bool {
	a, ok := b.(*addrBook)
	if !ok {
		return true
	}
	if !a.mtx.TryLock() {
		return false
	}
	a.mtx.Unlock()
	return true
}

// VerifC18RequestSent tells whether an address request to the peer is outstanding.
func (r *Reactor) VerifC18RequestSent(id string) bool { return r.requestsSent.Has(id) }
