//go:build verif

package p2p

// Access-only helper for check C18 (/verif/checks/c18): a real Switch on a transport that never
// connects (the Transport interface mentions the unexported peerConfig, so it can only be
// implemented inside this package). No logic that decides the property lives here.

import (
	"errors"

	"github.com/kardiachain/go-kardia/configs"
)

type verifC18Transport struct {
	addr    NetAddress
	Cleaned []ID
}

func (t *verifC18Transport) NetAddress() NetAddress { return t.addr }
func (t *verifC18Transport) Accept(peerConfig) (Peer, error) {
	return nil, errors.New("verif transport never accepts")
}
func (t *verifC18Transport) Dial(NetAddress, peerConfig) (Peer, error) {
	return nil, errors.New("verif transport never dials")
}
func (t *verifC18Transport) Cleanup(p Peer) { t.Cleaned = append(t.Cleaned, p.ID()) }

// VerifC18NewSwitch builds a real, unstarted Switch whose transport neither accepts nor dials.
func VerifC18NewSwitch(cfg *configs.P2PConfig) *Switch {
	return NewSwitch(cfg, &verifC18Transport{})
}

// VerifC18AddPeerToSet puts a peer into the switch's peer set without starting it or telling the
// reactors (what AddPeerToSwitchPeerSet of test_util.go does).
func VerifC18AddPeerToSet(sw *Switch, p Peer) error { return sw.peers.Add(p) }

// VerifC18RemovePeerFromSet removes it again.
func VerifC18RemovePeerFromSet(sw *Switch, p Peer) bool { return sw.peers.Remove(p) }
