//go:build verif

// Access for check C20: drive the SENDING half of an MConnection synchronously, without starting its
// routines (the checker owns the order of enqueue / send-one-packet / flush). Wrappers only: every
// method calls the repository's own unexported method of the same purpose; no property is decided here.
package conn

import (
	"time"

	"github.com/kardiachain/go-kardia/lib/timer"
)

// VerifC20PrepareUnstarted gives an MConnection that was NOT started the one field OnStart would have
// created and sendPacketMsg touches (the flush throttle timer; it is only ever Set, its channel is
// never read because no sendRoutine runs). Call VerifC20ReleaseUnstarted when done.
func (c *MConnection) VerifC20PrepareUnstarted() {
	if c.flushTimer == nil {
		c.flushTimer = timer.NewThrottleTimer("flush", time.Hour)
	}
}

// VerifC20ReleaseUnstarted stops the timer created by VerifC20PrepareUnstarted.
func (c *MConnection) VerifC20ReleaseUnstarted() {
	if c.flushTimer != nil {
		c.flushTimer.Stop()
	}
}

// VerifC20TrySend is TrySend without the IsRunning test: it queues msg on the channel exactly as
// TrySend does. known=false when the channel id is not configured.
func (c *MConnection) VerifC20TrySend(chID byte, msg []byte) (known, queued bool) {
	channel, ok := c.channelsIdx[chID]
	if !ok {
		return false, false
	}
	return true, channel.trySendBytes(msg)
}

// VerifC20SendPacketMsg writes (at most) one packet of the channel the connection itself selects.
// Returns true when nothing was pending.
func (c *MConnection) VerifC20SendPacketMsg() (exhausted bool) { return c.sendPacketMsg() }

// VerifC20SendSomePacketMsgs is the batch step of the send routine.
func (c *MConnection) VerifC20SendSomePacketMsgs() (exhausted bool) { return c.sendSomePacketMsgs() }

// VerifC20Flush flushes the buffered writer to the underlying connection.
func (c *MConnection) VerifC20Flush() { c.flush() }

// VerifC20MaxPacketMsgSize is the size limit the receive routine applies to one wire packet.
func (c *MConnection) VerifC20MaxPacketMsgSize() int { return c._maxPacketMsgSize }

// VerifC20RecvingLen reports how many bytes of an unfinished message a channel currently buffers
// (-1: unknown channel). Only meaningful when the receive routine is not running any more.
func (c *MConnection) VerifC20RecvingLen(chID byte) int {
	channel, ok := c.channelsIdx[chID]
	if !ok {
		return -1
	}
	return len(channel.recving)
}

// VerifC20FireFlushThrottle delivers to the send routine the event its flush throttle timer delivers
// (a value on flushTimer.Ch), blocking until the send routine takes it. Meant for a STARTED MConnection
// whose configured FlushThrottle is so long that the real timer never fires: the checker then owns the
// moment of the throttled flush.
func (c *MConnection) VerifC20FireFlushThrottle() { c.flushTimer.Ch <- struct{}{} }
