//go:build verif

// Access for check C20: the frame-size constants of the secret connection (unexported in the
// repository). Constants only; nothing here is executed.
package conn

const (
	// VerifC20DataLenSize is the size of the (encrypted) chunk-length field of a frame.
	VerifC20DataLenSize = dataLenSize
	// VerifC20DataMaxSize is the maximum number of payload bytes per frame.
	VerifC20DataMaxSize = dataMaxSize
	// VerifC20TotalFrameSize is the plaintext frame size (length field + payload area).
	VerifC20TotalFrameSize = totalFrameSize
	// VerifC20AeadSizeOverhead is the size of the authentication tag appended to a sealed frame.
	VerifC20AeadSizeOverhead = aeadSizeOverhead
	// VerifC20SealedFrameSize is what goes on the wire per frame.
	VerifC20SealedFrameSize = totalFrameSize + aeadSizeOverhead
)
