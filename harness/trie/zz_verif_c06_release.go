//go:build verif

package trie

// VerifC06Release returns the off-heap chunks of the clean-node read cache (fastcache) of a trie
// database that is about to be dropped. The C06 checker builds one node per enumerated execution;
// fastcache chunks are never garbage collected. Access only: called after all observations of a
// node were taken; decides nothing.
func (db *Database) VerifC06Release() {
	if db != nil && db.cleans != nil {
		db.cleans.Reset()
	}
}
