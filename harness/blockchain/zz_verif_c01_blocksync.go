//go:build verif

// Verification harness (injected through a build overlay): access to the block-sync processor FSM.
package blockchain

import (
	"fmt"

	"github.com/kardiachain/go-kardia/kai/state/cstate"
	"github.com/kardiachain/go-kardia/lib/p2p"
	"github.com/kardiachain/go-kardia/types"
)

// VerifC01BlockStore / VerifC01Applier have the method sets of the unexported blockStore / blockApplier.
type VerifC01BlockStore interface {
	Base() uint64
	Height() uint64
	LoadBlock(height uint64) *types.Block
	SaveBlock(*types.Block, *types.PartSet, *types.Commit)
}

type VerifC01Applier interface {
	ApplyBlock(state cstate.LatestBlockState, blockID types.BlockID, block *types.Block) (cstate.LatestBlockState, uint64, error)
}

// VerifC01Sync is the real processor (pcState + pContext) of a node that catches up by block sync.
type VerifC01Sync struct {
	st *pcState
}

func VerifC01NewSync(state cstate.LatestBlockState, store VerifC01BlockStore, applier VerifC01Applier) *VerifC01Sync {
	return &VerifC01Sync{st: newPcState(newProcessorContext(store, applier, state))}
}

func (s *VerifC01Sync) Height() uint64 { return s.st.height() }

// BlockReceived feeds scBlockReceived; a panic of the handler is returned.
func (s *VerifC01Sync) BlockReceived(peer string, b *types.Block) (panicked interface{}) {
	defer func() {
		if p := recover(); p != nil {
			panicked = p
		}
	}()
	s.st.handle(scBlockReceived{peerID: p2p.ID(peer), block: b})
	return nil
}

// Process feeds rProcessBlock and reports the resulting event: "processed:<h>", "verification-failure:<h>", "noop", "finished".
func (s *VerifC01Sync) Process() (ev string, panicked interface{}) {
	defer func() {
		if p := recover(); p != nil {
			panicked = p
		}
	}()
	e, _ := s.st.handle(rProcessBlock{})
	switch x := e.(type) {
	case pcBlockProcessed:
		return fmt.Sprintf("processed:%d", x.height), nil
	case pcBlockVerificationFailure:
		return fmt.Sprintf("verification-failure:%d", x.height), nil
	case pcFinished:
		return "finished", nil
	}
	return "noop", nil
}

// State is the processor's current chain state.
func (s *VerifC01Sync) State() cstate.LatestBlockState { return s.st.context.kaiState() }

// PeerError feeds scPeerError: the processor drops every queued block of that peer.
func (s *VerifC01Sync) PeerError(peer string) {
	s.st.handle(scPeerError{peerID: p2p.ID(peer)})
}
