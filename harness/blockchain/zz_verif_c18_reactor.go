//go:build verif

package blockchain

// Access-only helpers for check C18 (/verif/checks/c18): the block-sync reactor driven synchronously.
// A fast sync "in progress" is a reactor whose events channel is non-nil; instead of the three
// goroutines (scheduler routine, processor routine, demux) the checker pops the queued events and
// routes them through the real scheduler.handle / processor.handle exactly the way demux routes them
// (a transcription of the switch statements of demux; tickers become explicit calls). Nothing here
// decides the property.

import (
	"errors"
	"fmt"
	"time"

	"github.com/kardiachain/go-kardia/lib/p2p"
	"github.com/kardiachain/go-kardia/lib/behaviour"
)

// VerifC18TryLock reports whether the reactor's RWMutex is completely free (no reader, no writer).
func (r *BlockchainReactor) VerifC18TryLock() bool {
	if !r.mtx.TryLock() {
		return false
	}
	r.mtx.Unlock()
	return true
}

// VerifC18BeginSync puts the reactor into the "fast sync in progress" state (events channel
// allocated, switch reporter installed as Start() does) without starting any goroutine.
func (r *BlockchainReactor) VerifC18BeginSync() {
	r.reporter = behaviour.NewSwitchReporter(r.BaseReactor.Switch)
	r.mtx.Lock()
	r.events = make(chan Event, chBufferSize)
	r.mtx.Unlock()
}

// VerifC18UseSwitchReporter installs the reporter Start() installs (peers reported for a bad
// message are stopped through the switch) without beginning a sync.
func (r *BlockchainReactor) VerifC18UseSwitchReporter() {
	r.reporter = behaviour.NewSwitchReporter(r.BaseReactor.Switch)
}

// VerifC18Syncing tells whether the events channel exists.
func (r *BlockchainReactor) VerifC18Syncing() bool { return r.events != nil }

// VerifC18Trace is what one pump observed.
type VerifC18Trace struct {
	Events       []string // kinds of events routed, in order
	Finished     bool     // the processor reported pcFinished
	SchedulerErr error
	ProcessorErr error
}

func (t *VerifC18Trace) add(s string) { t.Events = append(t.Events, s) }

// routeFromScheduler is demux's "case event := <-r.scheduler.next()" arm.
func (r *BlockchainReactor) verifC18FromScheduler(ev Event, t *VerifC18Trace) {
	t.add(fmt.Sprintf("sc:%T", ev))
	switch event := ev.(type) {
	case scBlockReceived:
		r.verifC18ToProcessor(event, t)
	case scPeerError:
		r.verifC18ToProcessor(event, t)
		if err := r.reporter.Report(behaviour.BadMessage(event.peerID, "scPeerError")); err != nil {
			r.logger.Error("Error reporting peer", "err", err)
		}
	case scBlockRequest:
		if err := r.io.sendBlockRequest(event.peerID, event.height); err != nil {
			r.logger.Error("Error sending block request", "err", err)
		}
	case scFinishedEv:
		r.verifC18ToProcessor(event, t)
	case scSchedulerFail:
	case scPeersPruned:
		for _, peerID := range event.peers {
			r.verifC18ToProcessor(scPeerError{peerID: peerID, reason: errors.New("peer was pruned")}, t)
		}
	case noOpEvent:
	}
}

func (r *BlockchainReactor) verifC18ToScheduler(ev Event, t *VerifC18Trace) {
	if t.SchedulerErr != nil {
		return
	}
	out, err := r.scheduler.handle(ev)
	if err != nil {
		t.SchedulerErr = err
		return
	}
	r.verifC18FromScheduler(out, t)
}

// verifC18ToProcessor is processor.send + demux's "case event := <-r.processor.next()" arm.
func (r *BlockchainReactor) verifC18ToProcessor(ev Event, t *VerifC18Trace) {
	if t.ProcessorErr != nil {
		return
	}
	out, err := r.processor.handle(ev)
	if err != nil {
		t.ProcessorErr = err
		return
	}
	t.add(fmt.Sprintf("pc:%T", out))
	switch event := out.(type) {
	case pcBlockProcessed:
		r.setSyncHeight(event.height)
		r.verifC18ToScheduler(event, t)
	case pcBlockVerificationFailure:
		r.verifC18ToScheduler(event, t)
	case pcFinished:
		t.Finished = true
	case noOpEvent:
	}
}

// VerifC18Pump routes every queued peer event (demux's "case event, ok := <-events" arm).
func (r *BlockchainReactor) VerifC18Pump() *VerifC18Trace {
	t := &VerifC18Trace{}
	for r.events != nil {
		select {
		case ev := <-r.events:
			t.add(fmt.Sprintf("ev:%T", ev))
			switch event := ev.(type) {
			case bcStatusResponse:
				r.setMaxPeerHeight(event.height)
				r.verifC18ToScheduler(event, t)
			case bcAddNewPeer, bcRemovePeer, bcBlockResponse, bcNoBlockResponse:
				r.verifC18ToScheduler(event, t)
			}
		default:
			return t
		}
	}
	return t
}

// VerifC18Tick is one firing of a demux ticker: "schedule", "process" or "prune".
func (r *BlockchainReactor) VerifC18Tick(which string) *VerifC18Trace {
	t := &VerifC18Trace{}
	switch which {
	case "schedule":
		r.verifC18ToScheduler(rTrySchedule{time: time.Now()}, t)
	case "prune":
		r.verifC18ToScheduler(rTryPrunePeer{time: time.Now()}, t)
	case "process":
		r.verifC18ToProcessor(rProcessBlock{}, t)
	}
	return t
}

// VerifC18View is a read-only summary of the reactor's own counters (for state keys).
func (r *BlockchainReactor) VerifC18View() string {
	return fmt.Sprintf("sync=%d maxpeer=%d", r.syncHeight, r.maxPeerHeight)
}

// VerifC18QueuedEvents is the number of peer events waiting in the reactor's channel.
func (r *BlockchainReactor) VerifC18QueuedEvents() int {
	if r.events == nil {
		return 0
	}
	return len(r.events)
}

var _ = p2p.ID("")
