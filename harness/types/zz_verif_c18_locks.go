//go:build verif

package types

// Access-only helpers for check C18: exact "is this mutex free" probes.

// VerifC18TryLock reports whether the vote set's mutex could be taken (and releases it again).
func (voteSet *VoteSet) VerifC18TryLock() bool {
	if voteSet == nil {
		return true
	}
	if !voteSet.mtx.TryLock() {
		return false
	}
	voteSet.mtx.Unlock()
	return true
}

// VerifC18TryLock reports whether the part set's mutex could be taken (and releases it again).
func (ps *PartSet) VerifC18TryLock() bool {
	if ps == nil {
		return true
	}
	if !ps.mtx.TryLock() {
		return false
	}
	ps.mtx.Unlock()
	return true
}
