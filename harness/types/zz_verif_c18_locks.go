//go:build verif

package types

// Access-only helpers for check C18: exact "is this mutex free" probes.

import (
	"fmt"
	"sort"
	"strings"
)

// VerifC18TryLock reports whether the vote set's mutex could be taken (and releases it again).
func (voteSet *VoteSet) VerifC18TryLock() bool {
	if voteSet == nil {
		return true
	}
	if !voteSet.mtx.TryLock() {
		return false
	}
	voteSet.mtx.Unlock()
	return true
}

// VerifC18TryLock reports whether the part set's mutex could be taken (and releases it again).
func (ps *PartSet) VerifC18TryLock() bool {
	if ps == nil {
		return true
	}
	if !ps.mtx.TryLock() {
		return false
	}
	ps.mtx.Unlock()
	return true
}

// VerifC18Claims is a read-only digest of the bookkeeping a peer can influence without a valid
// signature: the block ids peers claimed a +2/3 majority for and the per-block tallies created for
// them. Requires the mutex to be free.
func (voteSet *VoteSet) VerifC18Claims() string {
	if voteSet == nil {
		return ""
	}
	voteSet.mtx.Lock()
	defer voteSet.mtx.Unlock()
	var l []string
	for p, id := range voteSet.peerMaj23s {
		l = append(l, fmt.Sprintf("m:%s=%x/%d", string(p), id.Hash[:4], id.PartsHeader.Total))
	}
	for k, bv := range voteSet.votesByBlock {
		if len(k) > 12 {
			k = k[:12]
		}
		l = append(l, fmt.Sprintf("b:%s=%v/%d", k, bv.peerMaj23, bv.sum))
	}
	sort.Strings(l)
	return strings.Join(l, ",")
}

// VerifC18ClaimCount is the cheap version of the same (number of entries).
func (voteSet *VoteSet) VerifC18ClaimCount() int {
	if voteSet == nil {
		return 0
	}
	voteSet.mtx.Lock()
	defer voteSet.mtx.Unlock()
	return len(voteSet.peerMaj23s)*1000 + len(voteSet.votesByBlock)
}

// VerifC18ClaimCounts: number of peer majority claims and of per-block tallies of the vote set.
func (voteSet *VoteSet) VerifC18ClaimCounts() (claims int, blockTallies int) {
	if voteSet == nil {
		return 0, 0
	}
	voteSet.mtx.Lock()
	defer voteSet.mtx.Unlock()
	return len(voteSet.peerMaj23s), len(voteSet.votesByBlock)
}
