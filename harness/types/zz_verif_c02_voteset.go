//go:build verif

package types

// Access-only helpers for check C02 (/verif/checks/c02). No logic that decides the property lives
// here: a deep clone of the bookkeeping of a VoteSet and a read-only dump of its fields.

import (
	"sort"

	"github.com/kardiachain/go-kardia/lib/p2p"
)

// VerifC02BlockVotes is a dump of one votesByBlock entry.
type VerifC02BlockVotes struct {
	Key       string
	PeerMaj23 bool
	Bits      []bool
	Votes     []*Vote
	Sum       int64
}

// VerifC02PeerClaim is a dump of one peerMaj23s entry.
type VerifC02PeerClaim struct {
	Peer    string
	BlockID BlockID
}

// VerifC02VoteSetDump is a dump of every mutable field of a VoteSet; maps are sorted by key.
type VerifC02VoteSetDump struct {
	Sum     int64
	Maj23   *BlockID
	Bits    []bool
	Votes   []*Vote
	ByBlock []VerifC02BlockVotes
	Peers   []VerifC02PeerClaim
}

// VerifC02Dump reads every mutable field of the vote set (the Vote pointers are the stored ones).
func VerifC02Dump(vs *VoteSet) VerifC02VoteSetDump {
	vs.mtx.Lock()
	defer vs.mtx.Unlock()
	d := VerifC02VoteSetDump{Sum: vs.sum}
	if vs.maj23 != nil {
		m := *vs.maj23
		d.Maj23 = &m
	}
	d.Votes = append([]*Vote(nil), vs.votes...)
	if vs.votesBitArray != nil {
		d.Bits = make([]bool, vs.votesBitArray.Size())
		for i := range d.Bits {
			d.Bits[i] = vs.votesBitArray.GetIndex(i)
		}
	}
	keys := make([]string, 0, len(vs.votesByBlock))
	for k := range vs.votesByBlock {
		keys = append(keys, k)
	}
	sort.Strings(keys)
	for _, k := range keys {
		bv := vs.votesByBlock[k]
		e := VerifC02BlockVotes{Key: k}
		if bv != nil {
			e.PeerMaj23 = bv.peerMaj23
			e.Sum = bv.sum
			e.Votes = append([]*Vote(nil), bv.votes...)
			if bv.bitArray != nil {
				e.Bits = make([]bool, bv.bitArray.Size())
				for i := range e.Bits {
					e.Bits[i] = bv.bitArray.GetIndex(i)
				}
			}
		}
		d.ByBlock = append(d.ByBlock, e)
	}
	peers := make([]string, 0, len(vs.peerMaj23s))
	for p := range vs.peerMaj23s {
		peers = append(peers, string(p))
	}
	sort.Strings(peers)
	for _, p := range peers {
		d.Peers = append(d.Peers, VerifC02PeerClaim{Peer: p, BlockID: vs.peerMaj23s[p2p.ID(p)]})
	}
	return d
}

// VerifC02Clone returns a VoteSet with a private copy of all bookkeeping. The validator set and the
// stored *Vote objects are shared (the code under test documents them as not mutated after adding).
func VerifC02Clone(vs *VoteSet) *VoteSet {
	vs.mtx.Lock()
	defer vs.mtx.Unlock()
	c := &VoteSet{
		chainID:       vs.chainID,
		height:        vs.height,
		round:         vs.round,
		signedMsgType: vs.signedMsgType,
		valSet:        vs.valSet,
		votes:         append([]*Vote(nil), vs.votes...),
		sum:           vs.sum,
		votesByBlock:  make(map[string]*blockVotes, len(vs.votesByBlock)),
		peerMaj23s:    make(map[p2p.ID]BlockID, len(vs.peerMaj23s)),
	}
	if vs.votesBitArray != nil {
		c.votesBitArray = vs.votesBitArray.Copy()
	}
	if vs.maj23 != nil {
		m := *vs.maj23
		c.maj23 = &m
	}
	for k, bv := range vs.votesByBlock {
		if bv == nil {
			c.votesByBlock[k] = nil
			continue
		}
		nb := &blockVotes{peerMaj23: bv.peerMaj23, votes: append([]*Vote(nil), bv.votes...), sum: bv.sum}
		if bv.bitArray != nil {
			nb.bitArray = bv.bitArray.Copy()
		}
		c.votesByBlock[k] = nb
	}
	for p, id := range vs.peerMaj23s {
		c.peerMaj23s[p] = id
	}
	return c
}
