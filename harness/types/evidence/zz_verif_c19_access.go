//go:build verif

// Verification harness (injected by /verif/run.sh through a build overlay; not part of the repository).
// Access only (C19): a read-only view of the pool's in-memory fields and database keys, the reactor's
// wire codec, and a deep-clone helper. Nothing here decides a property and nothing in the repository calls it.

package evidence

import (
	"reflect"
	"sync"
	"time"
	"unsafe"

	"github.com/kardiachain/go-kardia/kai/kaidb"
	"github.com/kardiachain/go-kardia/kai/state/cstate"
	"github.com/kardiachain/go-kardia/lib/clist"
	"github.com/kardiachain/go-kardia/types"
)

// VerifC19View is a snapshot of everything a Pool keeps besides its databases.
type VerifC19View struct {
	Size          uint32
	List          []types.Evidence // content of the gossip list, front to back
	PruningHeight uint64
	PruningTime   time.Time
	StateHeight   uint64
	StateTime     time.Time
	StateChainID  string
	// Buffered: evidence-typed elements of every slice field of the pool (the reports of consensus a pool
	// keeps aside until their block is committed), found by reflection so that this file compiles against
	// trees with and without such a field.
	Buffered []types.Evidence
}

// VerifC19Inspect reads the pool's in-memory fields.
func VerifC19Inspect(p *Pool) VerifC19View {
	st := p.State()
	v := VerifC19View{Size: p.Size(), PruningHeight: p.pruningHeight, PruningTime: p.pruningTime,
		StateHeight: st.LastBlockHeight, StateTime: st.LastBlockTime, StateChainID: st.ChainID}
	for e := p.evidenceList.Front(); e != nil; e = e.Next() {
		if ev, ok := e.Value.(types.Evidence); ok {
			v.List = append(v.List, ev)
		}
	}
	pv := reflect.ValueOf(p).Elem()
	for i := 0; i < pv.NumField(); i++ {
		f := pv.Field(i)
		if f.Kind() != reflect.Slice {
			continue
		}
		src := reflect.NewAt(f.Type(), unsafe.Pointer(f.UnsafeAddr())).Elem()
		for k := 0; k < src.Len(); k++ {
			if ev, ok := src.Index(k).Interface().(types.Evidence); ok && !(reflect.ValueOf(ev).Kind() == reflect.Ptr && reflect.ValueOf(ev).IsNil()) {
				v.Buffered = append(v.Buffered, ev)
			}
		}
	}
	return v
}

// VerifC19Keys lists the raw database keys under the pending and the committed prefix (prefix stripped),
// in one pass over the prefix the two have in common.
func VerifC19Keys(p *Pool) (pending, committed []string) {
	n := 0
	for n < len(baseKeyPending) && n < len(baseKeyCommitted) && baseKeyPending[n] == baseKeyCommitted[n] {
		n++
	}
	it := p.evidenceDB.NewIterator([]byte(baseKeyPending[:n]), nil)
	for it.Next() {
		k := string(it.Key())
		switch {
		case len(k) >= len(baseKeyPending) && k[:len(baseKeyPending)] == baseKeyPending:
			pending = append(pending, k[len(baseKeyPending):])
		case len(k) >= len(baseKeyCommitted) && k[:len(baseKeyCommitted)] == baseKeyCommitted:
			committed = append(committed, k[len(baseKeyCommitted):])
		}
	}
	it.Release()
	return pending, committed
}

// VerifC19EncodeMsg / VerifC19DecodeMsg are the evidence reactor's wire codec (what Receive runs
// before AddEvidence).
func VerifC19EncodeMsg(evis []types.Evidence) ([]byte, error) { return encodeMsg(evis) }
func VerifC19DecodeMsg(bz []byte) ([]types.Evidence, error)   { return decodeMsg(bz) }

// VerifC19Clone is a deep-clone helper for the explicit-state search: a pool with the same in-memory
// fields as p over other (copied) databases. Fields are copied generically (slices and maps freshly
// allocated, the mutex left zero), so that a field added to Pool later is carried along; the checker
// validates clones against replayed histories.
func VerifC19Clone(p *Pool, stateDB cstate.Store, evidenceDB kaidb.Database, blockStore BlockStore) *Pool {
	c := new(Pool)
	pv, cv := reflect.ValueOf(p).Elem(), reflect.ValueOf(c).Elem()
	mutexType := reflect.TypeOf(sync.Mutex{})
	for i := 0; i < pv.NumField(); i++ {
		f := pv.Field(i)
		src := reflect.NewAt(f.Type(), unsafe.Pointer(f.UnsafeAddr())).Elem()
		dst := reflect.NewAt(f.Type(), unsafe.Pointer(cv.Field(i).UnsafeAddr())).Elem()
		switch {
		case f.Type() == mutexType:
		case f.Kind() == reflect.Slice && !src.IsNil():
			n := reflect.MakeSlice(f.Type(), src.Len(), src.Len())
			reflect.Copy(n, src)
			dst.Set(n)
		case f.Kind() == reflect.Map && !src.IsNil():
			n := reflect.MakeMapWithSize(f.Type(), src.Len())
			for it := src.MapRange(); it.Next(); {
				n.SetMapIndex(it.Key(), it.Value())
			}
			dst.Set(n)
		default:
			dst.Set(src)
		}
	}
	c.stateDB, c.evidenceDB, c.blockStore = stateDB, evidenceDB, blockStore
	c.state = p.State()
	c.evidenceList = clist.New()
	for e := p.evidenceList.Front(); e != nil; e = e.Next() {
		c.evidenceList.PushBack(e.Value)
	}
	return c
}
