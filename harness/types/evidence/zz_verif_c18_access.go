//go:build verif

package evidence

// Access-only helpers for check C18: lock probe of the pool and the reactor's message codec.

import "github.com/kardiachain/go-kardia/types"

// VerifC18TryLock reports whether the pool's mutex could be taken (and releases it again).
func (evpool *Pool) VerifC18TryLock() bool {
	if !evpool.mtx.TryLock() {
		return false
	}
	evpool.mtx.Unlock()
	return true
}

// VerifC18Decode is the reactor's decodeMsg.
func VerifC18Decode(bz []byte) ([]types.Evidence, error) { return decodeMsg(bz) }

// VerifC18Encode is the reactor's encodeMsg.
func VerifC18Encode(evis []types.Evidence) ([]byte, error) { return encodeMsg(evis) }
