//go:build verif

package consensus

// Access-only helpers for check C18 (/verif/checks/c18): the consensus reactor (ConsensusManager)
// around a synchronously driven ConsensusState (VerifNode of zz_verif_netsim.go). Exposes: the
// wait-sync flag, a non-blocking pop of the peer message queue, bounded synchronous runs of the three
// real gossip routines, exact lock probes and read-only state digests. No logic that decides the
// property lives here.

import (
	"fmt"
	"strings"

	"github.com/kardiachain/go-kardia/kai/state/cstate"
	cmn "github.com/kardiachain/go-kardia/lib/common"
	"github.com/kardiachain/go-kardia/lib/p2p"
	"github.com/kardiachain/go-kardia/types"
)

// VerifC18SetWaitSync sets the reactor's fast-sync flag (what SwitchToConsensus does, without
// starting the ConsensusState's own goroutines: the checker drives handleMsg itself).
func VerifC18SetWaitSync(conR *ConsensusManager, wait bool) {
	conR.mtx.Lock()
	conR.waitSync = wait
	conR.mtx.Unlock()
}

// VerifC18PopPeerMsg takes one message off the ConsensusState's peer queue without blocking.
func VerifC18PopPeerMsg(cs *ConsensusState) (Message, string, bool) {
	select {
	case mi := <-cs.peerMsgQueue:
		return mi.Msg, string(mi.PeerID), true
	default:
		return nil, "", false
	}
}

// VerifC18QueueLen is the number of messages waiting in the peer queue.
func VerifC18QueueLen(cs *ConsensusState) int { return len(cs.peerMsgQueue) }

// VerifC18BlockExec is the node's block executor (used as the block-sync reactor's applier).
func VerifC18BlockExec(cs *ConsensusState) *cstate.BlockExecutor { return cs.blockExec }

// VerifC18Gossip runs one of the real per-peer routines in the caller's goroutine. The routine
// returns when peer.IsRunning() turns false, which the checker's peer does after a fixed number of
// polls; the gossip sleeps come from the node's ConsensusConfig (0 in the checker).
func VerifC18Gossip(conR *ConsensusManager, which string, peer p2p.Peer, ps *PeerState) {
	switch which {
	case "data":
		conR.gossipDataRoutine(peer, ps)
	case "votes":
		conR.gossipVotesRoutine(peer, ps)
	case "maj23":
		conR.queryMaj23Routine(peer, ps)
	default:
		panic("VerifC18Gossip: unknown routine " + which)
	}
}

func verifC18Try(name string, ok bool, held *[]string) {
	if !ok {
		*held = append(*held, name)
	}
}

// VerifC18HeldLocks try-locks (and releases) every mutex the reactor's Receive, the consensus
// handler and the gossip routines can take and returns the names of those that are held.
func VerifC18HeldLocks(conR *ConsensusManager, pss ...*PeerState) []string {
	var held []string
	cs := conR.conS
	if conR.mtx.TryLock() {
		conR.mtx.Unlock()
	} else {
		held = append(held, "ConsensusManager.mtx")
	}
	if !cs.mtx.TryLock() {
		held = append(held, "ConsensusState.mtx")
		return held // the fields below are guarded by it
	}
	defer cs.mtx.Unlock()
	verifC18Try("HeightVoteSet.mtx", cs.Votes.VerifC18TryLock(), &held)
	if cs.Votes != nil && cs.Votes.VerifC18TryLock() {
		for _, r := range cs.Votes.VerifC18Rounds() {
			verifC18Try(fmt.Sprintf("VoteSet.mtx(prevotes r%d)", r), cs.Votes.Prevotes(r).VerifC18TryLock(), &held)
			verifC18Try(fmt.Sprintf("VoteSet.mtx(precommits r%d)", r), cs.Votes.Precommits(r).VerifC18TryLock(), &held)
		}
	}
	verifC18Try("VoteSet.mtx(LastCommit)", cs.LastCommit.VerifC18TryLock(), &held)
	verifC18Try("PartSet.mtx(ProposalBlockParts)", cs.ProposalBlockParts.VerifC18TryLock(), &held)
	verifC18Try("PartSet.mtx(LockedBlockParts)", cs.LockedBlockParts.VerifC18TryLock(), &held)
	verifC18Try("PartSet.mtx(ValidBlockParts)", cs.ValidBlockParts.VerifC18TryLock(), &held)
	for i, ps := range pss {
		if ps == nil {
			continue
		}
		if !ps.mtx.TryLock() {
			held = append(held, fmt.Sprintf("PeerState.mtx(%d)", i))
			continue
		}
		prs := &ps.PRS
		for _, ba := range []struct {
			n string
			b *cmn.BitArray
		}{{"ProposalBlockParts", prs.ProposalBlockParts}, {"ProposalPOL", prs.ProposalPOL}, {"Prevotes", prs.Prevotes},
			{"Precommits", prs.Precommits}, {"LastCommit", prs.LastCommit}, {"CatchupCommit", prs.CatchupCommit}} {
			verifC18Try(fmt.Sprintf("BitArray.mtx(peer %d %s)", i, ba.n), ba.b.VerifC18TryLock(), &held)
		}
		ps.mtx.Unlock()
	}
	return held
}

func verifC18BA(b *cmn.BitArray) string {
	if b == nil {
		return "-"
	}
	// Bits and the element words, read without the methods (which assume consistency)
	var sb strings.Builder
	fmt.Fprintf(&sb, "%d/%d:", b.Bits, len(b.Elems))
	for i, e := range b.Elems {
		if i >= 4 {
			sb.WriteString("..")
			break
		}
		fmt.Fprintf(&sb, "%x,", e)
	}
	return sb.String()
}

// VerifC18PeerDigest is a read-only digest of what the reactor believes about a peer. The caller
// must know PeerState.mtx to be free (VerifC18HeldLocks).
func VerifC18PeerDigest(ps *PeerState) string {
	if ps == nil {
		return "nil"
	}
	p := &ps.PRS
	return fmt.Sprintf("H%d R%d S%d P%v PH%d:%x PBP%s POLR%d POL%s PV%s PC%s LCR%d LC%s CCR%d CC%s", p.Height, p.Round, p.Step, p.Proposal,
		p.ProposalBlockPartsHeader.Total, p.ProposalBlockPartsHeader.Hash[:4], verifC18BA(p.ProposalBlockParts), p.ProposalPOLRound, verifC18BA(p.ProposalPOL),
		verifC18BA(p.Prevotes), verifC18BA(p.Precommits), p.LastCommitRound, verifC18BA(p.LastCommit), p.CatchupCommitRound, verifC18BA(p.CatchupCommit))
}

func verifC18Parts(ps *types.PartSet) string {
	if ps == nil {
		return "-"
	}
	h := ps.Header()
	return fmt.Sprintf("%d:%x:%d", h.Total, h.Hash[:4], ps.Count())
}

func verifC18Block(b *types.Block) string {
	if b == nil {
		return "-"
	}
	h := b.Hash()
	return fmt.Sprintf("%x", h[:4])
}

func verifC18VS(vs *types.VoteSet) string {
	if vs == nil {
		return "-"
	}
	var sb strings.Builder
	for i := 0; i < vs.Size(); i++ {
		if v := vs.GetByIndex(uint32(i)); v != nil {
			fmt.Fprintf(&sb, "%d:%x;", i, v.BlockID.Hash[:3])
		}
	}
	if id, ok := vs.TwoThirdsMajority(); ok {
		fmt.Fprintf(&sb, "maj=%x", id.Hash[:3])
	}
	return sb.String()
}

// VerifC18NodeKey is a digest of the consensus-relevant state of the node: height/round/step, the
// proposal and block parts, lock and valid block, every vote held, the last commit, the applied
// height, the pending timeout, the number of committed blocks and the evidence pool size. The caller
// must know ConsensusState.mtx to be free.
func VerifC18NodeKey(n *VerifNode) string {
	cs := n.CS
	var sb strings.Builder
	fmt.Fprintf(&sb, "H%d R%d S%d ", cs.Height, cs.Round, cs.Step)
	if cs.Proposal != nil {
		fmt.Fprintf(&sb, "P(%d/%d/%d %x) ", cs.Proposal.Height, cs.Proposal.Round, cs.Proposal.POLRound, cs.Proposal.POLBlockID.Hash[:4])
	} else {
		sb.WriteString("P- ")
	}
	fmt.Fprintf(&sb, "PB%s PBP%s LR%d LB%s VR%d VB%s CR%d TTP%v ", verifC18Block(cs.ProposalBlock), verifC18Parts(cs.ProposalBlockParts), cs.LockedRound,
		verifC18Block(cs.LockedBlock), cs.ValidRound, verifC18Block(cs.ValidBlock), cs.CommitRound, cs.TriggeredTimeoutPrecommit)
	if cs.Votes != nil {
		for _, r := range cs.Votes.VerifC18Rounds() {
			fmt.Fprintf(&sb, "r%d[pv %s|pc %s] ", r, verifC18VS(cs.Votes.Prevotes(r)), verifC18VS(cs.Votes.Precommits(r)))
		}
	}
	fmt.Fprintf(&sb, "LC[%s] applied=%d saved=%d ", verifC18VS(cs.LastCommit), cs.state.LastBlockHeight, len(n.App.Saved))
	if t := n.Ticker.pending; t != nil {
		fmt.Fprintf(&sb, "TO(%d/%d/%d) ", t.Height, t.Round, t.Step)
	}
	if n.EvPool != nil {
		ev, _ := n.EvPool.PendingEvidence(1000)
		fmt.Fprintf(&sb, "ev=%d ", len(ev))
	}
	claims, _ := cs.Votes.VerifC18Claims()
	fmt.Fprintf(&sb, "q=%d/%d claims[%s] lc[%s]", len(cs.peerMsgQueue), len(cs.internalMsgQueue), claims, cs.LastCommit.VerifC18Claims())
	return sb.String()
}

// VerifC18DecodeMsg is the reactor's decodeMsg.
func VerifC18DecodeMsg(bz []byte) (Message, error) { return decodeMsg(bz) }

// VerifC18NodeStamp is a cheap fingerprint of the same state: scalar fields, the identity of the
// objects the round state points to, the number of handler steps executed by the harness and the
// queue lengths. It changes whenever the handler ran or a field was replaced; the checker computes
// the full VerifC18NodeKey whenever the stamp moved (and periodically to validate the stamp).
func VerifC18NodeStamp(n *VerifNode) string {
	cs := n.CS
	to := -1
	if t := n.Ticker.pending; t != nil {
		to = int(t.Height)*1000 + int(t.Round)*10 + int(t.Step)
	}
	var pbpCount uint32
	if cs.ProposalBlockParts != nil {
		pbpCount = cs.ProposalBlockParts.Count()
	}
	_, claims := cs.Votes.VerifC18Claims()
	claims += cs.LastCommit.VerifC18ClaimCount()
	return fmt.Sprintf("%d/%d/%d|%d %d %d %v|%p %p %p:%d %p %p %p %p|%d %d %d|%d %d %d|%v|%d", cs.Height, cs.Round, cs.Step, cs.LockedRound, cs.ValidRound, cs.CommitRound,
		cs.TriggeredTimeoutPrecommit, cs.Proposal, cs.ProposalBlock, cs.ProposalBlockParts, pbpCount, cs.LockedBlock, cs.ValidBlock, cs.Votes, cs.LastCommit,
		cs.state.LastBlockHeight, len(n.App.Saved), n.Steps, len(cs.peerMsgQueue), len(cs.internalMsgQueue), to, n.Failed != nil, claims)
}

// VerifC18Retained is what the consensus state keeps for the current height on behalf of peers.
func VerifC18Retained(cs *ConsensusState) (rounds int, catchup map[string]int, claims int, blockTallies int) {
	return cs.Votes.VerifC18Retained()
}
