//go:build verif

// Verification harness (injected through a build overlay; not part of the repository).
// The REAL node stack (blockchain + staking contracts + tx pool + evidence pool + block operations +
// block executor + consensus state + real WAL) wired like mainchain/backend.go New, on recording
// devices, driven synchronously. Used by the crash-recovery check (C05) and block execution checks.

package consensus

import (
	"crypto/ecdsa"
	"fmt"
	"math/big"
	"os"
	"path/filepath"
	"runtime/debug"
	"sync"
	"time"

	"github.com/kardiachain/go-kardia/configs"
	"github.com/kardiachain/go-kardia/kai/kaidb"
	"github.com/kardiachain/go-kardia/kai/kaidb/memorydb"
	"github.com/kardiachain/go-kardia/kai/state/cstate"
	"github.com/kardiachain/go-kardia/lib/common"
	"github.com/kardiachain/go-kardia/lib/crypto"
	kevents "github.com/kardiachain/go-kardia/lib/events"
	"github.com/kardiachain/go-kardia/lib/log"
	kos "github.com/kardiachain/go-kardia/lib/os"
	"github.com/kardiachain/go-kardia/mainchain/blockchain"
	"github.com/kardiachain/go-kardia/mainchain/genesis"
	"github.com/kardiachain/go-kardia/mainchain/staking"
	"github.com/kardiachain/go-kardia/mainchain/tx_pool"
	"github.com/kardiachain/go-kardia/types"
	"github.com/kardiachain/go-kardia/types/evidence"
)

// ---------------------------------------------------------------------------------------------
// recorder: one totally ordered log of durable operations on both devices

type VerifKV struct {
	K, V []byte
	Del  bool
}

type VerifOp struct {
	Dev   string // "db" | "wal"
	Kind  string // db: put | delete | batch ; wal: sync
	Label string // db: classification by key schema ; wal: kinds of the messages made durable
	KVs   []VerifKV
	// wal sync only:
	WalMsgs   []string // kinds of the records this sync makes durable (in order)
	EndHeight int64    // >0 if an #ENDHEIGHT marker becomes durable with this sync
	OwnSigs   []int    // indices into the node's Signed list of own messages made durable (published) by this sync
	FileAfter []byte   // complete WAL file content after the sync returned
}

type VerifRecorder struct {
	mu  sync.Mutex
	Ops []VerifOp
	// OnCut is called BEFORE operation idx is applied: everything before it is durable, it is not.
	OnCut func(idx int, op *VerifOp)
	Off   bool
}

func (r *VerifRecorder) before(op VerifOp) int {
	if r == nil || r.Off {
		return -1
	}
	r.mu.Lock()
	r.Ops = append(r.Ops, op)
	idx := len(r.Ops) - 1
	cb := r.OnCut
	r.mu.Unlock()
	if cb != nil {
		cb(idx, &r.Ops[idx])
	}
	return idx
}

func verifClassify(kvs []VerifKV) string {
	has := map[string]bool{}
	for _, kv := range kvs {
		k := kv.K
		switch {
		case len(k) >= 14 && string(k[:14]) == "ConsensusState":
			has["cstate"] = true
		case string(k) == "LastBlock":
			has["head"] = true
		case len(k) == 9 && k[0] == 'm':
			has["block"] = true
		case len(k) == 10 && string(k[:2]) == "ah":
			has["apphash"] = true
		case len(k) == 32:
			has["trie"] = true
		case len(k) >= 4 && string(k[:4]) == "Snap":
			has["snapshot"] = true
		}
	}
	for _, l := range []string{"cstate", "head", "block", "apphash", "trie", "snapshot"} {
		if has[l] {
			return l
		}
	}
	return "other"
}

// VerifRecDB wraps a memorydb and logs every mutation.
type VerifRecDB struct {
	*memorydb.Database
	Rec *VerifRecorder
}

func VerifNewRecDB(rec *VerifRecorder) *VerifRecDB {
	return &VerifRecDB{Database: memorydb.New(), Rec: rec}
}

func cp(b []byte) []byte { return append([]byte{}, b...) }

func (d *VerifRecDB) Put(k, v []byte) error {
	kvs := []VerifKV{{K: cp(k), V: cp(v)}}
	d.Rec.before(VerifOp{Dev: "db", Kind: "put", Label: verifClassify(kvs), KVs: kvs})
	return d.Database.Put(k, v)
}
func (d *VerifRecDB) Delete(k []byte) error {
	kvs := []VerifKV{{K: cp(k), Del: true}}
	d.Rec.before(VerifOp{Dev: "db", Kind: "delete", Label: verifClassify(kvs), KVs: kvs})
	return d.Database.Delete(k)
}
func (d *VerifRecDB) NewBatch() kaidb.Batch {
	return &verifRecBatch{db: d, inner: d.Database.NewBatch()}
}

type verifRecBatch struct {
	db    *VerifRecDB
	inner kaidb.Batch
	kvs   []VerifKV
}

func (b *verifRecBatch) Put(k, v []byte) error {
	b.kvs = append(b.kvs, VerifKV{K: cp(k), V: cp(v)})
	return b.inner.Put(k, v)
}
func (b *verifRecBatch) Delete(k []byte) error {
	b.kvs = append(b.kvs, VerifKV{K: cp(k), Del: true})
	return b.inner.Delete(k)
}
func (b *verifRecBatch) ValueSize() int { return b.inner.ValueSize() }
func (b *verifRecBatch) Write() error {
	if len(b.kvs) > 0 {
		b.db.Rec.before(VerifOp{Dev: "db", Kind: "batch", Label: verifClassify(b.kvs), KVs: append([]VerifKV{}, b.kvs...)})
	}
	return b.inner.Write()
}
func (b *verifRecBatch) Reset()                              { b.kvs = nil; b.inner.Reset() }
func (b *verifRecBatch) Replay(w kaidb.KeyValueWriter) error { return b.inner.Replay(w) }

// VerifRestoreDB rebuilds the database image made of the first n recorded operations.
func VerifRestoreDB(ops []VerifOp, n int, rec *VerifRecorder) *VerifRecDB {
	d := VerifNewRecDB(rec)
	for i := 0; i < n && i < len(ops); i++ {
		if ops[i].Dev != "db" {
			continue
		}
		for _, kv := range ops[i].KVs {
			if kv.Del {
				d.Database.Delete(kv.K)
			} else {
				d.Database.Put(kv.K, kv.V)
			}
		}
	}
	return d
}

// ---------------------------------------------------------------------------------------------
// recording WAL around the real BaseWAL

type VerifRecWAL struct {
	*BaseWAL
	Rec       *VerifRecorder
	Path      string
	Node      *VerifNode
	unsynced  []string
	pendEnd   int64
	pendOwn   []int
	pendVotes []*types.Vote
	// own signed messages (proposal / vote) written but not yet covered by a sync
	unsyncedOwnSigned []string
	// OnHandledBeforeDurable is called when the receive routine comes back to the WAL with its NEXT message
	// while an own signed message it has already handled is still not durable.
	OnHandledBeforeDurable func(kinds []string)
	// OnSynced is called after a sync returned, with the kinds and the own votes it made durable.
	OnSynced func(kinds []string, ownVotes []*types.Vote)
}

func verifMsgKind(msg WALMessage) string {
	switch m := msg.(type) {
	case EndHeightMessage:
		return fmt.Sprintf("#ENDHEIGHT:%d", m.Height)
	case timeoutInfo:
		return "timeout"
	case msgInfo:
		own := "peer"
		if m.PeerID == "" {
			own = "own"
		}
		switch m.Msg.(type) {
		case *ProposalMessage:
			return own + "-proposal"
		case *BlockPartMessage:
			return own + "-part"
		case *VoteMessage:
			return own + "-vote"
		}
		return own + "-msg"
	case types.EventDataRoundState:
		return "roundstate"
	}
	return fmt.Sprintf("%T", msg)
}

func (w *VerifRecWAL) note(msg WALMessage) {
	w.unsynced = append(w.unsynced, verifMsgKind(msg))
	switch m := msg.(type) {
	case EndHeightMessage:
		w.pendEnd = m.Height
	case msgInfo:
		if vm, ok := m.Msg.(*VoteMessage); ok && m.PeerID == "" {
			w.pendVotes = append(w.pendVotes, vm.Vote)
		}
		if m.PeerID == "" && w.Node != nil {
			// find the signature request this own message came from (latest matching one)
			for i := len(w.Node.Signed) - 1; i >= 0; i-- {
				r := w.Node.Signed[i]
				match := false
				switch mm := m.Msg.(type) {
				case *ProposalMessage:
					match = r.Kind == "proposal" && r.Height == mm.Proposal.Height && r.Round == mm.Proposal.Round && r.BlockID.Equal(mm.Proposal.POLBlockID)
				case *VoteMessage:
					match = r.Kind == "vote" && r.Type == int32(mm.Vote.Type) && r.Height == mm.Vote.Height && r.Round == mm.Vote.Round && r.BlockID.Equal(mm.Vote.BlockID)
				}
				if match {
					w.pendOwn = append(w.pendOwn, i)
					break
				}
			}
		}
	}
}

// entry: receiveRoutine writes message k+1 only after it has handled message k; so if an own signed message is
// still unsynced now, it entered the node's state (from where it is gossiped) before it was durable.
func (w *VerifRecWAL) entry(msg WALMessage) {
	if _, isRS := msg.(types.EventDataRoundState); isRS {
		return // newStep() writes round-state records from inside the handling of a message
	}
	if len(w.unsyncedOwnSigned) > 0 && w.OnHandledBeforeDurable != nil {
		w.OnHandledBeforeDurable(append([]string{}, w.unsyncedOwnSigned...))
		w.unsyncedOwnSigned = nil
	}
}

func (w *VerifRecWAL) Write(msg WALMessage) error {
	w.entry(msg)
	w.note(msg)
	if k := verifMsgKind(msg); k == "own-proposal" || k == "own-vote" {
		w.unsyncedOwnSigned = append(w.unsyncedOwnSigned, k)
	}
	return w.BaseWAL.Write(msg)
}

func (w *VerifRecWAL) sync(f func() error) error {
	op := VerifOp{Dev: "wal", Kind: "sync", WalMsgs: append([]string{}, w.unsynced...), EndHeight: w.pendEnd, OwnSigs: append([]int{}, w.pendOwn...)}
	op.Label = "sync("
	for i, k := range op.WalMsgs {
		if i > 0 {
			op.Label += ","
		}
		op.Label += k
	}
	op.Label += ")"
	idx := w.Rec.before(op)
	err := f()
	if w.OnSynced != nil && err == nil {
		w.OnSynced(op.WalMsgs, w.pendVotes)
	}
	w.unsynced, w.pendEnd, w.pendOwn, w.pendVotes = nil, 0, nil, nil
	if err == nil {
		w.unsyncedOwnSigned = nil
	}
	if idx >= 0 {
		b, _ := os.ReadFile(w.Path)
		w.Rec.Ops[idx].FileAfter = b
	}
	return err
}

func (w *VerifRecWAL) WriteSync(msg WALMessage) error {
	w.entry(msg)
	w.note(msg)
	return w.sync(func() error { return w.BaseWAL.WriteSync(msg) })
}

func (w *VerifRecWAL) FlushAndSync() error {
	return w.sync(func() error { return w.BaseWAL.FlushAndSync() })
}

// FileWithTail flushes the in-memory buffer to the file (no behavioural effect on the node) and
// returns the file content: the synced prefix followed by everything written but not yet synced.
func (w *VerifRecWAL) FileWithTail() []byte {
	w.BaseWAL.FlushAndSync()
	b, _ := os.ReadFile(w.Path)
	return b
}

// ---------------------------------------------------------------------------------------------
// full node

type VerifFullConfig struct {
	Key      *ecdsa.PrivateKey // the single validator
	Funded   []common.Address  // accounts with a large balance
	Archive  bool              // TrieDirtyDisabled: flush state every block
	Snapshot bool              // SnapshotLimit > 0 (the production default), construction awaited on start-up
	DB       *VerifRecDB
	WalDir   string // directory; the WAL file is <WalDir>/cs.wal/wal
	WalImage []byte // if non-nil, written as the WAL file before opening it
	// WalRotated: the image is written as the rotated file <wal>.000 and no head file exists (a crash right after the
	// group rotated its head)
	WalRotated bool
	// WalSplit > 0: the first WalSplit bytes of the image are written as the rotated file <wal>.000 and the rest as the
	// head (the group rotated its head at that record boundary and the node went on writing before the crash)
	WalSplit int
	Rec      *VerifRecorder
	// Genesis, when set, replaces the built-in single-validator genesis (e.g. a shipped genesis file).
	// It is used read-only except for what Genesis.ToBlock itself does to its Alloc map: pass a fresh
	// object per node.
	Genesis *genesis.Genesis
	NoWAL   bool // keep the nilWAL (no crash/restart in this run)
}

type VerifFullParts struct {
	BC     *blockchain.BlockChain
	TxPool *tx_pool.TxPool
	BO     *blockchain.BlockOperations
	WAL    *VerifRecWAL
	Exec   *cstate.BlockExecutor
	Saved  []VerifCommitRecord
}

var verifGenesisOnce sync.Once
var verifGenesisContracts map[string]string

// VerifFullGenesis builds a single-validator genesis the way cmd/utils.setGenesis + tests do.
func VerifFullGenesis(validator common.Address, funded []common.Address) *genesis.Genesis {
	verifGenesisOnce.Do(func() {
		// global configuration tables: filled exactly once (they are plain maps)
		configs.AddDefaultContract()
		verifGenesisContracts = make(map[string]string)
		for key, contract := range configs.GetContracts() {
			configs.LoadGenesisContract(key, contract.Address, contract.ByteCode, contract.ABI)
			if key != configs.StakingContractKey {
				verifGenesisContracts[contract.Address] = contract.ByteCode
			}
		}
	})
	initValue, _ := big.NewInt(0).SetString("1000000000000000000000000000", 10)
	accounts := map[string]*big.Int{validator.Hex(): initValue}
	for _, a := range funded {
		accounts[a.Hex()] = initValue
	}
	contracts := make(map[string]string)
	for k, v := range verifGenesisContracts {
		contracts[k] = v
	}
	g := genesis.DefaulTestnetFullGenesisBlock(accounts, contracts)
	g.ChainID = "verif-full"
	g.Timestamp = time.Unix(1605528000, 0).UTC()
	g.Validators = []*genesis.GenesisValidator{{
		Name: "val1", Address: validator.Hex(), CommissionRate: "100000000000000000", MaxRate: "250000000000000000",
		MaxChangeRate: "50000000000000000", SelfDelegate: "12500000000000000000000000", StartWithGenesis: true,
	}}
	return g
}

// blockOpsRec wraps the real BlockOperations only to observe SaveBlock calls.
type verifBlockOpsRec struct {
	*blockchain.BlockOperations
	parts *VerifFullParts
}

func (b *verifBlockOpsRec) SaveBlock(block *types.Block, partSet *types.PartSet, seenCommit *types.Commit) {
	b.parts.Saved = append(b.parts.Saved, VerifCommitRecord{Height: block.Height(), BlockID: types.BlockID{Hash: block.Hash(), PartsHeader: partSet.Header()}, Block: block, Seen: seenCommit})
	b.BlockOperations.SaveBlock(block, partSet, seenCommit)
}

// VerifBootFull constructs the whole stack in backend.go's order and runs the WAL catch-up exactly
// like ConsensusState.OnStart does (including the corruption-repair loop). Any error or panic is
// returned: a node that cannot boot on its own files.
func VerifBootFull(c VerifFullConfig) (n *VerifNode, err error) {
	defer func() {
		if p := recover(); p != nil {
			err = fmt.Errorf("boot panicked: %v\n%s", p, debug.Stack())
		}
	}()
	logger := log.New()
	addr := crypto.PubkeyToAddress(c.Key.PublicKey)
	gen := c.Genesis
	if gen == nil {
		gen = VerifFullGenesis(addr, c.Funded)
	}
	cache := &blockchain.CacheConfig{TrieCleanLimit: 16, TrieDirtyLimit: 16, TrieDirtyDisabled: c.Archive, TrieTimeLimit: 5 * time.Minute}
	if c.Snapshot {
		cache.SnapshotLimit, cache.SnapshotWait = 16, true
	}
	bc, err := blockchain.NewBlockChain(c.DB, cache, gen)
	if err != nil {
		return nil, fmt.Errorf("NewBlockChain: %w", err)
	}
	n = &VerifNode{Name: "full", Full: &VerifFullParts{BC: bc}}
	n.Store = cstate.NewStore(c.DB)
	pool, err := evidence.NewPool(n.Store, c.DB, bc)
	if err != nil {
		return nil, fmt.Errorf("evidence.NewPool: %w", err)
	}
	n.EvPool = pool
	txcfg := tx_pool.DefaultTxPoolConfig
	txcfg.Journal = ""
	txcfg.Broadcast = false
	n.Full.TxPool = tx_pool.NewTxPool(txcfg, bc.Config(), bc)
	stakingUtil, err := staking.NewSmcStakingUtil()
	if err != nil {
		return nil, err
	}
	n.Full.BO = blockchain.NewBlockOperations(logger, bc, n.Full.TxPool, pool, stakingUtil)
	bo := &verifBlockOpsRec{BlockOperations: n.Full.BO, parts: n.Full}
	blockExec := cstate.NewBlockExecutor(n.Store, logger, pool, bo)
	n.Full.Exec = blockExec
	state, err := n.Store.LoadStateFromDBOrGenesisDoc(gen)
	if err != nil {
		return nil, fmt.Errorf("LoadStateFromDBOrGenesisDoc: %w", err)
	}
	cfg := configs.TestConsensusConfig()
	cfg.RootDir = c.WalDir
	cs := NewConsensusState(logger, cfg, state, bo, blockExec, pool)
	n.Ticker = newVerifTicker()
	cs.timeoutTicker = n.Ticker
	pv := &verifPV{inner: types.NewDefaultPrivValidator(c.Key), node: n}
	n.Addr = pv.GetAddress()
	cs.SetPrivValidator(pv)
	n.Bus = types.NewEventBus()
	if err := n.Bus.Start(); err != nil {
		return nil, err
	}
	cs.SetEventBus(n.Bus)
	n.CS = cs
	if c.NoWAL {
		return n, nil
	}
	// WAL: real BaseWAL on the given directory
	walFile := cfg.WalFile()
	if err := kos.EnsureDir(filepath.Dir(walFile), 0700); err != nil {
		return nil, err
	}
	if c.WalImage != nil {
		to := walFile
		if c.WalRotated {
			to = walFile + ".000"
		}
		img := c.WalImage
		if c.WalSplit > 0 && c.WalSplit < len(img) && !c.WalRotated {
			if err := os.WriteFile(walFile+".000", img[:c.WalSplit], 0600); err != nil {
				return nil, err
			}
			img = img[c.WalSplit:]
		}
		if err := os.WriteFile(to, img, 0600); err != nil {
			return nil, err
		}
	}
	open := func() error {
		w, err := NewWAL(walFile)
		if err != nil {
			return err
		}
		w.SetLogger(logger)
		rw := &VerifRecWAL{BaseWAL: w, Rec: c.Rec, Path: walFile, Node: n}
		// Start() writes #ENDHEIGHT:0 into an empty file through WriteSync of the embedded BaseWAL
		if err := w.Start(); err != nil {
			return err
		}
		n.Full.WAL = rw
		cs.wal = rw
		return nil
	}
	if err := open(); err != nil {
		return nil, fmt.Errorf("open WAL: %w", err)
	}
	// --- transcription of ConsensusState.OnStart's catch-up / repair loop
	repairAttempted := false
LOOP:
	for {
		err := cs.catchupReplay(cs.Height)
		switch {
		case err == nil:
			break LOOP
		case !IsDataCorruptionError(err):
			n.CatchupErr = err
			break LOOP
		case repairAttempted:
			return n, fmt.Errorf("catchupReplay after repair: %w", err)
		}
		if err := cs.wal.Stop(); err != nil {
			return n, err
		}
		repairAttempted = true
		corruptedFile := fmt.Sprintf("%s.CORRUPTED", walFile)
		if err := kos.CopyFile(walFile, corruptedFile); err != nil {
			return n, err
		}
		if err := repairWalFile(corruptedFile, walFile); err != nil {
			return n, fmt.Errorf("repairWalFile: %w", err)
		}
		n.Repaired = true
		if err := open(); err != nil {
			return n, fmt.Errorf("reopen WAL after repair: %w", err)
		}
	}
	return n, nil
}

// StopFull releases goroutines and files of a full node.
func (n *VerifNode) StopFull() {
	defer func() { recover() }()
	if n.Full == nil {
		return
	}
	if n.Full.WAL != nil {
		n.Full.WAL.Rec = nil
		n.Full.WAL.BaseWAL.Stop()
	}
	if n.Full.TxPool != nil {
		n.Full.TxPool.Stop()
	}
	if n.Full.BC != nil {
		// NOT bc.Stop(): that flushes cached state to disk, which a crashed process never does
	}
	n.Close()
}

// CleanStop ends the node the way Kardiachain.Stop does (consensus, then the chain): the WAL is flushed and
// stopped, the pool stopped and BlockChain.Stop journals the snapshot and writes the cached recent states to
// disk. The recording devices stay attached, so these writes are part of the recorded history.
func (n *VerifNode) CleanStop() {
	defer func() { recover() }()
	if n.Full == nil {
		return
	}
	if n.Full.WAL != nil {
		n.Full.WAL.FlushAndSync()
		n.Full.WAL.BaseWAL.Stop()
	}
	if n.Full.TxPool != nil {
		n.Full.TxPool.Stop()
	}
	if n.Full.BC != nil {
		n.Full.BC.Stop()
	}
	n.Close()
}

// SyncTxPool makes the pool catch up with the current head (the pool follows head events
// asynchronously; the harness makes that a synchronous step).
func (n *VerifNode) SyncTxPool() {
	n.Full.TxPool.VerifC05ResetTo(n.Full.BC.CurrentBlock().Header())
}

// RunToHeight fires timeouts until the node has committed height h (single validator: every timeout
// runs a whole height). Returns false if the node cannot get there within maxSteps.
func (n *VerifNode) RunToHeight(h uint64, maxSteps int, beforeHeight func(next uint64)) bool {
	for s := 0; s < maxSteps; s++ {
		if n.Failed != nil {
			return false
		}
		cur := n.CS.state.LastBlockHeight
		if cur >= h {
			return true
		}
		if n.CS.Step == 1 /* NewHeight */ && beforeHeight != nil {
			n.SyncTxPool()
			beforeHeight(n.CS.Height)
		}
		if !n.FireTimeout() {
			return false
		}
	}
	return n.CS.state.LastBlockHeight >= h
}

// ---------------------------------------------------------------------------------------------
// free-running variant: the REAL Start() (OnStart, receiveRoutine, real ticker) on the recording WAL.
// Only an ORDER invariant is judged on it (write-ahead), which holds on every schedule.

type VerifWriteAheadViolation struct {
	Height uint64
	Round  uint32
	Type   int32
	What   string
}

// VerifFreeRun boots the full stack, starts it with the real Start(), lets it run until `target`
// heights are committed or the deadline passes, and returns the write-ahead violations observed:
// an own vote that became part of the node's state (EventVote fired from handleMsg, from where the
// reactor gossips it) before a WAL fsync covering it had returned.
func VerifFreeRun(c VerifFullConfig, target uint64, deadline time.Duration) (viol []VerifWriteAheadViolation, reached uint64, ownVotes int, err error) {
	defer func() {
		if p := recover(); p != nil {
			err = fmt.Errorf("free run panicked: %v\n%s", p, debug.Stack())
		}
	}()
	n, err := VerifBootFull(c)
	if err != nil {
		return nil, 0, 0, err
	}
	defer n.StopFull()
	// give the real ticker back
	n.CS.timeoutTicker = NewTimeoutTicker()
	n.CS.timeoutTicker.SetLogger(n.CS.Logger)
	n.CS.doWALCatchup = false // VerifBootFull already ran the catch-up on this WAL
	var mu sync.Mutex
	synced := map[string]bool{}
	w := n.Full.WAL
	w.OnSynced = func(kinds []string, votes []*types.Vote) {
		mu.Lock()
		for _, v := range votes {
			synced[string(v.Signature)] = true
		}
		mu.Unlock()
	}
	w.OnHandledBeforeDurable = func(kinds []string) {
		mu.Lock()
		for _, k := range kinds {
			t := int32(0)
			if k == "own-proposal" {
				t = 32
			}
			viol = append(viol, VerifWriteAheadViolation{Type: t, What: "the receive routine handled its " + k + " (it is part of the node's state and gossiped from there) while the message was not yet durable in the WAL"})
		}
		mu.Unlock()
	}
	n.CS.evsw.AddListenerForEvent("verif-write-ahead", types.EventVote, func(data kevents.EventData) {
		v, ok := data.(*types.Vote)
		if !ok || v.ValidatorAddress != n.Addr {
			return
		}
		mu.Lock()
		ownVotes++
		if !synced[string(v.Signature)] {
			viol = append(viol, VerifWriteAheadViolation{Height: v.Height, Round: v.Round, Type: int32(v.Type),
				What: "own vote entered the node's state (EventVote) before any WAL fsync covering it had returned"})
		}
		mu.Unlock()
	})
	if err := n.CS.Start(); err != nil {
		return nil, 0, 0, fmt.Errorf("Start: %w", err)
	}
	t0 := time.Now()
	for time.Since(t0) < deadline {
		n.CS.mtx.RLock()
		reached = n.CS.state.LastBlockHeight
		n.CS.mtx.RUnlock()
		if reached >= target {
			break
		}
		time.Sleep(2 * time.Millisecond)
	}
	n.CS.Stop()
	select {
	case <-n.CS.done:
	case <-time.After(5 * time.Second):
	}
	mu.Lock()
	defer mu.Unlock()
	return viol, reached, ownVotes, nil
}
