//go:build verif

// Verification harness (injected by /verif/run.sh through a build overlay; not part of the repository).
// Access and recording only: a real ConsensusState wired to recording seams and driven synchronously
// through its own handleMsg / handleTimeout, plus a small deterministic application.

package consensus

import (
	"crypto/ecdsa"
	"fmt"
	"math/big"
	"runtime/debug"
	"sort"
	"sync/atomic"
	"time"

	"github.com/kardiachain/go-kardia/configs"
	cstypes "github.com/kardiachain/go-kardia/consensus/types"
	"github.com/kardiachain/go-kardia/kai/kaidb"
	"github.com/kardiachain/go-kardia/kai/rawdb"
	"github.com/kardiachain/go-kardia/kai/state/cstate"
	"github.com/kardiachain/go-kardia/lib/common"
	"github.com/kardiachain/go-kardia/lib/crypto"
	"github.com/kardiachain/go-kardia/lib/log"
	"github.com/kardiachain/go-kardia/lib/p2p"
	"github.com/kardiachain/go-kardia/mainchain/genesis"
	stypes "github.com/kardiachain/go-kardia/mainchain/staking/types"
	kproto "github.com/kardiachain/go-kardia/proto/kardiachain/types"
	"github.com/kardiachain/go-kardia/trie"
	"github.com/kardiachain/go-kardia/types"
	"github.com/kardiachain/go-kardia/types/evidence"
)

func init() {
	log.Root().SetHandler(log.DiscardHandler())
}

// ---------------------------------------------------------------------------------------------
// recording ticker: keeps only the pending timeout, with the supersede rule of timeoutRoutine

type VerifTicker struct {
	last    timeoutInfo
	pending *timeoutInfo
	nilCh   chan timeoutInfo
	Log     []string
}

func newVerifTicker() *VerifTicker {
	return &VerifTicker{last: *EmptyTimeoutInfo(), nilCh: make(chan timeoutInfo)}
}

func (t *VerifTicker) Start() error             { return nil }
func (t *VerifTicker) Stop() error              { return nil }
func (t *VerifTicker) Chan() <-chan timeoutInfo { return t.nilCh }
func (t *VerifTicker) SetLogger(log.Logger)     {}
func (t *VerifTicker) ScheduleTimeout(newti timeoutInfo) {
	ti := t.last
	if rule := verifTickerRule.Load(); rule != nil {
		// the supersede rule MEASURED on the real timeoutTicker of this tree (VerifMeasureTicker)
		if !(*rule)[verifTickerKey(ti, newti)] {
			return
		}
	} else {
		// transcription of timeoutTicker.timeoutRoutine's "ignore tickers for old height/round/step"
		if newti.Height < ti.Height {
			return
		} else if newti.Height == ti.Height {
			if newti.Round < ti.Round {
				return
			} else if newti.Round == ti.Round {
				if ti.Step > 0 && newti.Step <= ti.Step {
					return
				}
			}
		}
	}
	t.last = newti
	c := newti
	t.pending = &c
}

// ---------------------------------------------------------------------------------------------
// binding VerifTicker to the real ticker: the supersede rule is measured on consensus.NewTimeoutTicker()

var verifTickerRule atomic.Pointer[map[string]bool]

func verifClampDiff(a, b uint64) int {
	switch {
	case a+1 < b:
		return -2
	case a < b:
		return -1
	case a > b+1:
		return 2
	case a > b:
		return 1
	}
	return 0
}

// verifTickerKey is the class of (old, new) the rule is measured per: height and round differences clamped to
// [-2, 2], and the exact pair of steps.
func verifTickerKey(old, newti timeoutInfo) string {
	return fmt.Sprintf("h%+d r%+d s%d>%d", verifClampDiff(newti.Height, old.Height), verifClampDiff(uint64(newti.Round), uint64(old.Round)), old.Step, newti.Step)
}

// VerifTranscribedTickerRule is the rule as transcribed from ticker.go at the pinned commit (for the record only).
func VerifTranscribedTickerRule() map[string]bool {
	out := map[string]bool{}
	for dh := -2; dh <= 2; dh++ {
		for dr := -2; dr <= 2; dr++ {
			for os := 1; os <= 8; os++ {
				for ns := 1; ns <= 8; ns++ {
					acc := true
					if dh < 0 || (dh == 0 && dr < 0) || (dh == 0 && dr == 0 && ns <= os) {
						acc = false
					}
					out[fmt.Sprintf("h%+d r%+d s%d>%d", dh, dr, os, ns)] = acc
				}
			}
		}
	}
	return out
}

// VerifMeasureTicker runs, for each of the 1600 classes of (old timeout, new timeout), two experiments on fresh
// REAL tickers: A = old(1h) then new(0): a tock for new means "accepted"; B = old(400ms) then new(1h): a tock for
// old means "ignored". Exactly one of them produces a tock; which one is observed positively (no verdict rests
// on the absence of an event within a short time). problems lists: a first timeout that never fires, a class for
// which neither experiment produces the awaited tock within the watchdog. Tocks other than the awaited one
// (stale or spurious ones, which handleTimeout filters) are ignored.
func VerifMeasureTicker(watchdog time.Duration) (rule map[string]bool, problems []string) {
	rule = map[string]bool{}
	// basic: the first timeout scheduled on a fresh ticker fires and carries what was scheduled
	{
		tk := NewTimeoutTicker()
		tk.SetLogger(log.New())
		tk.Start()
		want := timeoutInfo{Duration: 0, Height: 1, Round: 0, Step: cstypes.RoundStepNewHeight}
		tk.ScheduleTimeout(want)
		dead := time.After(watchdog)
	first:
		for {
			select {
			case got := <-tk.Chan():
				if got == want {
					break first
				}
			case <-dead:
				problems = append(problems, "first-timeout-never-fires")
				return nil, problems
			}
		}
	}
	type res struct {
		key      string
		accepted bool
		note     string
	}
	ch := make(chan res, 1600)
	n := 0
	for dh := -2; dh <= 2; dh++ {
		for dr := -2; dr <= 2; dr++ {
			for os := 1; os <= 8; os++ {
				for ns := 1; ns <= 8; ns++ {
					n++
					go func(dh, dr, os, ns int) {
						old := timeoutInfo{Height: 5, Round: 5, Step: cstypes.RoundStepType(os)}
						nw := timeoutInfo{Height: uint64(5 + dh), Round: uint32(5 + dr), Step: cstypes.RoundStepType(ns)}
						key := verifTickerKey(old, nw)
						for attempt := 0; ; attempt++ {
							a, b := NewTimeoutTicker(), NewTimeoutTicker()
							a.SetLogger(log.New())
							b.SetLogger(log.New())
							a.Start()
							b.Start()
							oa, na := old, nw
							oa.Duration, na.Duration = time.Hour, 0
							a.ScheduleTimeout(oa)
							a.ScheduleTimeout(na)
							ob, nb := old, nw
							ob.Duration, nb.Duration = 400*time.Millisecond*time.Duration(1<<uint(attempt)), time.Hour
							t0 := time.Now()
							b.ScheduleTimeout(ob)
							b.ScheduleTimeout(nb)
							if time.Since(t0) > ob.Duration/4 && attempt < 4 {
								continue // the two schedules of B were not close together: the experiment says nothing
							}
							// other tocks (e.g. the spurious initial tock of a fresh ticker whose zero timer fired before it
							// could be stopped) are what handleTimeout filters by height/round/step: they are not awaited
							dead := time.After(watchdog)
						wait:
							for {
								select {
								case got := <-a.Chan():
									if got == na {
										ch <- res{key, true, ""}
										break wait
									}
								case got := <-b.Chan():
									if got == ob {
										ch <- res{key, false, ""}
										break wait
									}
								case <-dead:
									ch <- res{key, false, "no-tock-in-either-experiment"}
									break wait
								}
							}
							return
						}
					}(dh, dr, os, ns)
				}
			}
		}
	}
	for i := 0; i < n; i++ {
		r := <-ch
		rule[r.key] = r.accepted
		if r.note != "" {
			problems = append(problems, r.key+": "+r.note)
		}
	}
	sort.Strings(problems)
	return rule, problems
}

// VerifInstallTickerRule makes every VerifTicker of this process follow the given (measured) rule.
func VerifInstallTickerRule(rule map[string]bool) {
	if rule == nil {
		verifTickerRule.Store(nil)
		return
	}
	verifTickerRule.Store(&rule)
}

// VerifTimeout is the exported view of a pending timeout.
type VerifTimeout struct {
	Height uint64
	Round  uint32
	Step   uint8
}

// ---------------------------------------------------------------------------------------------
// recording signer

type VerifSignRecord struct {
	Kind      string // "vote" | "proposal"
	Type      int32
	Height    uint64
	Round     uint32
	POLRound  uint32
	BlockID   types.BlockID
	Timestamp time.Time
	Seq       int // position in the node's step log
}

type verifPV struct {
	inner *types.DefaultPrivValidator
	node  *VerifNode
}

func (p *verifPV) GetPubKey() ecdsa.PublicKey { return p.inner.GetPubKey() }
func (p *verifPV) GetAddress() common.Address { return p.inner.GetAddress() }
func (p *verifPV) ExtractIntoValidator(votingPower int64) *types.Validator {
	return p.inner.ExtractIntoValidator(votingPower)
}
func (p *verifPV) SignVote(chainID string, vote *kproto.Vote) error {
	bid, _ := types.BlockIDFromProto(&vote.BlockID)
	rec := VerifSignRecord{Kind: "vote", Type: int32(vote.Type), Height: vote.Height, Round: vote.Round, Timestamp: vote.Timestamp, Seq: p.node.Steps}
	if bid != nil {
		rec.BlockID = *bid
	}
	p.node.Signed = append(p.node.Signed, rec)
	if p.node.OnSign != nil {
		p.node.OnSign(p.node, rec)
	}
	return p.inner.SignVote(chainID, vote)
}
func (p *verifPV) SignProposal(chainID string, proposal *kproto.Proposal) error {
	bid, _ := types.BlockIDFromProto(&proposal.BlockID)
	rec := VerifSignRecord{Kind: "proposal", Type: int32(kproto.ProposalType), Height: proposal.Height, Round: proposal.Round, POLRound: proposal.PolRound,
		Timestamp: proposal.Timestamp, Seq: p.node.Steps}
	if bid != nil {
		rec.BlockID = *bid
	}
	p.node.Signed = append(p.node.Signed, rec)
	if p.node.OnSign != nil {
		p.node.OnSign(p.node, rec)
	}
	return p.inner.SignProposal(chainID, proposal)
}

// ---------------------------------------------------------------------------------------------
// deterministic application + block store on a kaidb (implements BaseBlockOperations,
// cstate.BlockStore and evidence.BlockStore). Blocks are stored with the real rawdb accessors and the
// head / app-hash / canonical markers are written the way BlockChain writes them, so that the real
// cstate.Store.Load works on the same database after a restart.

type VerifCommitRecord struct {
	Height  uint64
	BlockID types.BlockID
	Block   *types.Block
	Seen    *types.Commit
}

type VerifSimApp struct {
	DB       kaidb.Database
	ChainCfg *configs.ChainConfig
	EvPool   *evidence.Pool
	height   uint64
	// ValScript: height -> full validator list the application reports after executing that height and every later
	// one, until another entry takes over (before the first entry: no report).
	ValScript map[uint64][]*types.Validator
	// TxScript: (height) -> transactions a proposer includes.
	TxScript  func(height uint64, proposer common.Address) []*types.Transaction
	Saved     []VerifCommitRecord // every SaveBlock call, in order
	Applied   []VerifCommitRecord // every CommitAndValidateBlockTxs call, in order
	FailApply map[uint64]bool
}

func verifAppHash(prev common.Hash, block *types.Block) common.Hash {
	h := block.Hash()
	return common.BytesToHash(crypto.Keccak256(prev.Bytes(), h.Bytes()))
}

func (a *VerifSimApp) Base() uint64   { return 1 }
func (a *VerifSimApp) Height() uint64 { return a.height }
func (a *VerifSimApp) LoadBlock(height uint64) *types.Block {
	return rawdb.ReadBlock(a.DB, height)
}
func (a *VerifSimApp) LoadBlockCommit(height uint64) *types.Commit {
	return rawdb.ReadCommit(a.DB, height)
}
func (a *VerifSimApp) LoadSeenCommit(height uint64) *types.Commit {
	return rawdb.ReadSeenCommit(a.DB, height)
}
func (a *VerifSimApp) LoadBlockPart(height uint64, index int) *types.Part {
	return rawdb.ReadBlockPart(a.DB, height, index)
}
func (a *VerifSimApp) LoadBlockMeta(height uint64) *types.BlockMeta {
	return rawdb.ReadBlockMeta(a.DB, height)
}
func (a *VerifSimApp) Config() *configs.ChainConfig { return a.ChainCfg }

func (a *VerifSimApp) CreateProposalBlock(height uint64, lastState cstate.LatestBlockState, proposerAddr common.Address, commit *types.Commit) (*types.Block, *types.PartSet) {
	// mirrors mainchain/blockchain.BlockOperations.CreateProposalBlock (pre-Galaxias path)
	var ev []types.Evidence
	if a.EvPool != nil {
		maxNumEvidence, _ := types.MaxEvidencePerBlock(lastState.ConsensusParams.Evidence.MaxBytes)
		ev, _ = a.EvPool.PendingEvidence(maxNumEvidence)
	}
	var timestamp time.Time
	if height == 1 {
		timestamp = lastState.LastBlockTime
	} else {
		timestamp = cstate.MedianTime(commit, lastState.LastValidators)
	}
	header := &types.Header{
		Height:             height,
		Time:               timestamp,
		LastBlockID:        lastState.LastBlockID,
		ProposerAddress:    proposerAddr,
		ValidatorsHash:     lastState.Validators.Hash(),
		NextValidatorsHash: lastState.NextValidators.Hash(),
		AppHash:            lastState.AppHash,
		GasLimit:           configs.BlockGasLimit,
	}
	var txs []*types.Transaction
	if a.TxScript != nil {
		txs = a.TxScript(height, proposerAddr)
	}
	block := types.NewBlock(header, txs, commit, ev, trie.NewStackTrie(nil))
	return block, block.MakePartSet(types.BlockPartSizeBytes)
}

func (a *VerifSimApp) CommitAndValidateBlockTxs(block *types.Block, lastCommit stypes.LastCommitInfo, byzVals []stypes.Evidence) ([]*types.Validator, common.Hash, error) {
	if a.FailApply[block.Height()] {
		return nil, common.Hash{}, fmt.Errorf("scripted application failure at height %d", block.Height())
	}
	prev := rawdb.ReadAppHash(a.DB, block.Height()-1)
	root := verifAppHash(prev, block)
	// writeBlockWithState
	b := a.DB.NewBatch()
	rawdb.WriteCanonicalHash(b, block.Hash(), block.Height())
	rawdb.WriteAppHash(b, block.Height(), root)
	if err := b.Write(); err != nil {
		return nil, common.Hash{}, err
	}
	// writeHeadBlock
	b = a.DB.NewBatch()
	rawdb.WriteCanonicalHash(b, block.Hash(), block.Height())
	rawdb.WriteHeadBlockHash(b, block.Hash())
	if err := b.Write(); err != nil {
		return nil, common.Hash{}, err
	}
	a.Applied = append(a.Applied, VerifCommitRecord{Height: block.Height(), BlockID: types.BlockID{Hash: block.Hash()}, Block: block})
	// like the staking application, the simulated one reports the FULL validator list after every block once it
	// has something to report: the list scripted for the latest height <= this one
	var vals []*types.Validator
	latest := uint64(0)
	for sh := range a.ValScript {
		if sh <= block.Height() && sh > latest {
			latest = sh
		}
	}
	for _, v := range a.ValScript[latest] {
		vals = append(vals, types.NewValidator(v.Address, v.VotingPower))
	}
	return vals, root, nil
}

func (a *VerifSimApp) SaveBlock(block *types.Block, partSet *types.PartSet, seenCommit *types.Commit) {
	if block == nil {
		common.PanicSanity("BlockOperations try to save a nil block")
	}
	height := block.Height()
	if g, w := height, a.Height()+1; g != w {
		common.PanicSanity(common.Fmt("BlockOperations can only save contiguous blocks. Wanted %v, got %v", w, g))
	}
	if !partSet.IsComplete() {
		panic("BlockOperations can only save complete block part sets")
	}
	rawdb.WriteBlock(a.DB, block, partSet, seenCommit)
	a.height = height
	a.Saved = append(a.Saved, VerifCommitRecord{Height: height, BlockID: types.BlockID{Hash: block.Hash(), PartsHeader: partSet.Header()}, Block: block, Seen: seenCommit})
}

// ---------------------------------------------------------------------------------------------
// node

type VerifGenesis struct {
	ChainID    string
	Time       time.Time
	Validators []*types.Validator // address + power
	Params     *kproto.ConsensusParams
}

// VerifMakeGenesisState goes through the real cstate.MakeGenesisState.
func VerifMakeGenesisState(g *VerifGenesis) cstate.LatestBlockState {
	doc := &genesis.Genesis{ChainID: g.ChainID, InitialHeight: 1, Timestamp: g.Time, ConsensusParams: g.Params}
	for _, v := range g.Validators {
		tokens := new(big.Int).Mul(big.NewInt(v.VotingPower), configs.PowerReduction)
		doc.Validators = append(doc.Validators, &genesis.GenesisValidator{Address: v.Address.Hex(), SelfDelegate: tokens.String(), StartWithGenesis: true})
	}
	st, err := cstate.MakeGenesisState(doc)
	if err != nil {
		panic(err)
	}
	return st
}

// VerifWriteGenesisBlock stores a height-0 block the way genesis setup does (block, canonical hash,
// head pointer, app hash), so that cstate.Store.Load finds a head.
func VerifWriteGenesisBlock(db kaidb.Database, g *VerifGenesis) *types.Block {
	header := &types.Header{Height: 0, Time: g.Time, GasLimit: configs.BlockGasLimit}
	block := types.NewBlock(header, nil, &types.Commit{}, nil, trie.NewStackTrie(nil))
	rawdb.WriteBlock(db, block, block.MakePartSet(types.BlockPartSizeBytes), &types.Commit{})
	rawdb.WriteCanonicalHash(db, block.Hash(), 0)
	rawdb.WriteHeadBlockHash(db, block.Hash())
	rawdb.WriteAppHash(db, 0, common.Hash{})
	return block
}

type VerifNodeConfig struct {
	Name     string
	Genesis  *VerifGenesis
	Key      *ecdsa.PrivateKey
	DB       kaidb.Database // survives restarts; must already contain the genesis block
	WAL      WAL            // nil => nilWAL
	ConsCfg  *configs.ConsensusConfig
	App      *VerifSimApp // optional: reuse scripts; DB/height are re-derived
	NoEvPool bool
}

// VerifNode is one real ConsensusState driven synchronously.
type VerifNode struct {
	Name   string
	CS     *ConsensusState
	Ticker *VerifTicker
	App    *VerifSimApp
	Store  cstate.Store
	EvPool *evidence.Pool
	Bus    *types.EventBus
	Addr   common.Address
	Signed []VerifSignRecord
	OnSign func(n *VerifNode, rec VerifSignRecord)
	OnOwn  func(n *VerifNode, msg Message) // called for each own message before it is handled
	// OnOwnLogged is called after the own message went through the WAL discipline and right before
	// handleMsg makes it part of the node's state (from where the reactor gossips it): "published".
	OnOwnLogged func(n *VerifNode, msg Message)
	Steps       int
	Failed      interface{} // recovered panic of the handler ("CONSENSUS FAILURE"): the node is halted
	FailStk     string
	Killed      bool
	// full-stack variant (zz_verif_fullnode.go)
	Full       *VerifFullParts
	CatchupErr error
	Repaired   bool
}

// VerifNewNode wires a node the way mainchain/backend.go New does (store, evidence pool, executor,
// LoadStateFromDBOrGenesisDoc, NewConsensusState), with the simulated application.
func VerifNewNode(c VerifNodeConfig) (n *VerifNode, err error) {
	defer func() {
		if p := recover(); p != nil {
			err = fmt.Errorf("node construction panicked: %v\n%s", p, debug.Stack())
		}
	}()
	n = &VerifNode{Name: c.Name}
	app := c.App
	if app == nil {
		app = &VerifSimApp{}
	}
	app.DB = c.DB
	app.ChainCfg = configs.TestChainConfig
	if head := rawdb.ReadHeadBlock(c.DB); head != nil {
		app.height = head.Height()
	}
	n.App = app
	n.Store = cstate.NewStore(c.DB)
	if !c.NoEvPool {
		pool, err := evidence.NewPool(n.Store, c.DB, app)
		if err != nil {
			return nil, err
		}
		n.EvPool = pool
		app.EvPool = pool
	}
	logger := log.New()
	var evp cstate.EvidencePool = verifNopEvPool{}
	var cevp evidencePool = verifNopEvPool{}
	if n.EvPool != nil {
		evp, cevp = n.EvPool, n.EvPool
	}
	blockExec := cstate.NewBlockExecutor(n.Store, logger, evp, app)
	doc := &genesis.Genesis{ChainID: c.Genesis.ChainID, InitialHeight: 1, Timestamp: c.Genesis.Time, ConsensusParams: c.Genesis.Params}
	for _, v := range c.Genesis.Validators {
		tokens := new(big.Int).Mul(big.NewInt(v.VotingPower), configs.PowerReduction)
		doc.Validators = append(doc.Validators, &genesis.GenesisValidator{Address: v.Address.Hex(), SelfDelegate: tokens.String(), StartWithGenesis: true})
	}
	state, err := n.Store.LoadStateFromDBOrGenesisDoc(doc)
	if err != nil {
		return nil, err
	}
	cfg := c.ConsCfg
	if cfg == nil {
		cfg = configs.TestConsensusConfig()
	}
	cs := NewConsensusState(logger, cfg, state, app, blockExec, cevp)
	n.Ticker = newVerifTicker()
	cs.timeoutTicker = n.Ticker
	pv := &verifPV{inner: types.NewDefaultPrivValidator(c.Key), node: n}
	n.Addr = pv.GetAddress()
	cs.SetPrivValidator(pv)
	n.Bus = types.NewEventBus()
	if err := n.Bus.Start(); err != nil {
		return nil, err
	}
	cs.SetEventBus(n.Bus)
	if c.WAL != nil {
		cs.wal = c.WAL
	}
	n.CS = cs
	return n, nil
}

func verifPeerID(s string) p2p.ID { return p2p.ID(s) }

type verifNopEvPool struct{}

func (verifNopEvPool) Update(cstate.LatestBlockState, types.EvidenceList) {}
func (verifNopEvPool) CheckEvidence(types.EvidenceList) error             { return nil }
func (verifNopEvPool) AddEvidenceFromConsensus(types.Evidence) error      { return nil }

// Close releases the event bus goroutines.
func (n *VerifNode) Close() {
	if n.Bus != nil {
		n.Bus.Stop()
	}
}

// Begin does what OnStart does after WAL catch-up: schedule round 0.
func (n *VerifNode) Begin() {
	n.guard(func() { n.CS.scheduleRound0(n.CS.GetRoundState()) })
}

// CatchupReplay runs the real catchupReplay with OnStart's error policy and reports the error.
func (n *VerifNode) CatchupReplay() (err error) {
	n.guard(func() { err = n.CS.catchupReplay(n.CS.Height) })
	return err
}

func (n *VerifNode) guard(f func()) {
	if n.Failed != nil {
		return
	}
	defer func() {
		if p := recover(); p != nil {
			n.Failed = p
			n.FailStk = string(debug.Stack())
		}
	}()
	f()
}

// drain handles the node's own queued messages the way receiveRoutine does (WriteSync, handleMsg).
func (n *VerifNode) drain() {
	for n.Failed == nil {
		select {
		case mi := <-n.CS.internalMsgQueue:
			if n.OnOwn != nil {
				n.OnOwn(n, mi.Msg)
			}
			n.guard(func() {
				if err := n.CS.wal.WriteSync(mi); err != nil {
					panic(fmt.Sprintf("Failed to write %v msg to consensus wal due to %v", mi, err))
				}
				if n.OnOwnLogged != nil {
					n.OnOwnLogged(n, mi.Msg)
				}
				n.CS.handleMsg(mi)
			})
		default:
			return
		}
	}
}

// DeliverPeerMsg feeds one peer message: wal.Write, handleMsg, then the node's own messages.
func (n *VerifNode) DeliverPeerMsg(msg Message, peer string) {
	if n.Failed != nil {
		return
	}
	n.Steps++
	n.guard(func() {
		mi := msgInfo{Msg: msg, PeerID: verifPeerID(peer)}
		if err := n.CS.wal.Write(mi); err != nil {
			n.CS.Logger.Error("Error writing to wal", "err", err)
		}
		n.CS.handleMsg(mi)
	})
	n.drain()
}

// PendingTimeout returns the timeout that would fire next, if any.
func (n *VerifNode) PendingTimeout() *VerifTimeout {
	if n.Ticker.pending == nil {
		return nil
	}
	p := n.Ticker.pending
	return &VerifTimeout{Height: p.Height, Round: p.Round, Step: uint8(p.Step)}
}

// FireTimeout fires the pending timeout: wal.Write, handleTimeout, own messages.
func (n *VerifNode) FireTimeout() bool {
	if n.Failed != nil || n.Ticker.pending == nil {
		return false
	}
	ti := *n.Ticker.pending
	n.Ticker.pending = nil
	n.Steps++
	n.guard(func() {
		rs := n.CS.RoundState
		if err := n.CS.wal.Write(ti); err != nil {
			n.CS.Logger.Error("Error writing to wal", "err", err)
		}
		n.CS.handleTimeout(ti, rs)
	})
	n.drain()
	return true
}

// RS gives direct (unlocked) access to the round state; the harness is single-threaded.
func (n *VerifNode) RS() *cstypes.RoundState { return &n.CS.RoundState }

// State is the node's LatestBlockState.
func (n *VerifNode) State() cstate.LatestBlockState { return n.CS.state }

// VerifHVSRounds lists the rounds a HeightVoteSet tracks (via the public getters).
func VerifHVSRounds(hvs *cstypes.HeightVoteSet, max uint32) []uint32 {
	var out []uint32
	for r := uint32(0); r <= max; r++ {
		if hvs.Prevotes(r) != nil {
			out = append(out, r)
		}
	}
	return out
}

// VerifVotesOf lists the votes a vote set holds, by validator index.
func VerifVotesOf(vs *types.VoteSet) []*types.Vote {
	if vs == nil {
		return nil
	}
	var out []*types.Vote
	for i := 0; i < vs.Size(); i++ {
		if v := vs.GetByIndex(uint32(i)); v != nil {
			out = append(out, v)
		}
	}
	return out
}

// VerifVotesFor lists the votes in the set's tally for one block id, including votes that conflict with the
// validator's first vote and were taken under a peer's +2/3 claim.
func VerifVotesFor(vs *types.VoteSet, id types.BlockID) []*types.Vote {
	if vs == nil {
		return nil
	}
	var out []*types.Vote
	for _, e := range types.VerifC02Dump(vs).ByBlock {
		if e.Key != id.Key() {
			continue
		}
		for _, v := range e.Votes {
			if v != nil {
				out = append(out, v)
			}
		}
	}
	return out
}

// SetPeerMaj23 records a peer's +2/3 claim the way ConsensusManager.Receive does for a VoteSetMaj23Message.
func (n *VerifNode) SetPeerMaj23(round uint32, t kproto.SignedMsgType, peer string, id types.BlockID) error {
	cs := n.CS
	cs.mtx.Lock()
	votes := cs.Votes
	cs.mtx.Unlock()
	if votes == nil {
		return nil
	}
	return votes.SetPeerMaj23(round, t, p2p.ID(peer), id)
}

// Constructors for consensus messages (the types are exported already; kept for symmetry).
func VerifVoteMsg(v *types.Vote) Message         { return &VoteMessage{Vote: v} }
func VerifProposalMsg(p *types.Proposal) Message { return &ProposalMessage{Proposal: p} }
func VerifPartMsg(h uint64, r uint32, p *types.Part) Message {
	return &BlockPartMessage{Height: h, Round: r, Part: p}
}

// VerifSortVals sorts validators the way NewValidatorSet does, to derive indices.
func VerifSortedAddrs(vals []*types.Validator) []common.Address {
	vs := types.NewValidatorSet(vals)
	out := make([]common.Address, len(vs.Validators))
	for i, v := range vs.Validators {
		out[i] = v.Address
	}
	sort.SliceStable(out, func(i, j int) bool { return false })
	return out
}

// ---- accessors that work for both the simulated application and the full stack

// SavedRecords lists every SaveBlock call the node made, in order.
func (n *VerifNode) SavedRecords() []VerifCommitRecord {
	if n.Full != nil {
		return n.Full.Saved
	}
	return n.App.Saved
}

func (n *VerifNode) LoadBlockCommit(h uint64) *types.Commit {
	return n.CS.blockOperations.LoadBlockCommit(h)
}
func (n *VerifNode) LoadBlockMeta(h uint64) *types.BlockMeta {
	return n.CS.blockOperations.LoadBlockMeta(h)
}
func (n *VerifNode) LoadBlockPart(h uint64, i int) *types.Part {
	return n.CS.blockOperations.LoadBlockPart(h, i)
}

// VerifOpenWAL opens (and starts) a real BaseWAL on the given file.
func VerifOpenWAL(path string) (WAL, error) {
	w, err := NewWAL(path)
	if err != nil {
		return nil, err
	}
	w.SetLogger(log.New())
	if err := w.Start(); err != nil {
		return nil, err
	}
	return w, nil
}

// StopWAL stops the node's WAL (flushes it) if it is a real one.
func (n *VerifNode) StopWAL() {
	defer func() { recover() }()
	if n.CS != nil && n.CS.wal != nil {
		n.CS.wal.Stop()
		n.CS.wal.Wait()
	}
}

// BlockExec exposes the node's real block executor (used by the block-sync sub-harness).
func (n *VerifNode) BlockExec() *cstate.BlockExecutor { return n.CS.blockExec }
