//go:build verif

// Verification harness (injected through a build overlay; not part of the repository).
// Access only (C19): netsim builds every node from the default consensus parameters; C19 also needs a
// network whose genesis parameters allow evidence to fit into a proposal. This sets the field of the
// node's in-memory state that the genesis document would have set (call it on every node before the
// first step). It changes nothing when not called.

package consensus

// VerifC19SetEvidenceMaxBytes overrides ConsensusParams.Evidence.MaxBytes of the node's state.
func (n *VerifNode) VerifC19SetEvidenceMaxBytes(v int64) {
	n.CS.state.ConsensusParams.Evidence.MaxBytes = v
}
