//go:build verif

package types

// Access-only helpers for check C02 (/verif/checks/c02): a read-only dump and a deep clone of the
// bookkeeping of a HeightVoteSet. No logic that decides the property lives here.

import (
	"sort"

	"github.com/kardiachain/go-kardia/lib/p2p"
	"github.com/kardiachain/go-kardia/types"
)

// VerifC02HVSDump lists the tracked round, the rounds that have vote sets and the catch-up rounds
// used by each peer (sorted).
type VerifC02HVSDump struct {
	Round   uint32
	Rounds  []uint32
	Peers   []string
	Catchup [][]uint32
}

// VerifC02DumpHVS reads the bookkeeping of a HeightVoteSet.
func VerifC02DumpHVS(hvs *HeightVoteSet) VerifC02HVSDump {
	hvs.mtx.Lock()
	defer hvs.mtx.Unlock()
	d := VerifC02HVSDump{Round: hvs.round}
	for r := range hvs.roundVoteSets {
		d.Rounds = append(d.Rounds, r)
	}
	sort.Slice(d.Rounds, func(i, j int) bool { return d.Rounds[i] < d.Rounds[j] })
	for p := range hvs.peerCatchupRounds {
		d.Peers = append(d.Peers, string(p))
	}
	sort.Strings(d.Peers)
	for _, p := range d.Peers {
		d.Catchup = append(d.Catchup, append([]uint32(nil), hvs.peerCatchupRounds[p2p.ID(p)]...))
	}
	return d
}

// VerifC02CloneHVS returns a HeightVoteSet with private copies of all bookkeeping; the vote sets
// are cloned with the function passed in (types.VerifC02Clone).
func VerifC02CloneHVS(hvs *HeightVoteSet, cloneVoteSet func(*types.VoteSet) *types.VoteSet) *HeightVoteSet {
	hvs.mtx.Lock()
	defer hvs.mtx.Unlock()
	c := &HeightVoteSet{
		logger:            hvs.logger,
		chainID:           hvs.chainID,
		height:            hvs.height,
		valSet:            hvs.valSet,
		round:             hvs.round,
		roundVoteSets:     make(map[uint32]RoundVoteSet, len(hvs.roundVoteSets)),
		peerCatchupRounds: make(map[p2p.ID][]uint32, len(hvs.peerCatchupRounds)),
	}
	for r, rvs := range hvs.roundVoteSets {
		n := RoundVoteSet{}
		if rvs.Prevotes != nil {
			n.Prevotes = cloneVoteSet(rvs.Prevotes)
		}
		if rvs.Precommits != nil {
			n.Precommits = cloneVoteSet(rvs.Precommits)
		}
		c.roundVoteSets[r] = n
	}
	for p, rs := range hvs.peerCatchupRounds {
		c.peerCatchupRounds[p] = append([]uint32(nil), rs...)
	}
	return c
}
