//go:build verif

package types

// Access-only helpers for check C18: lock probe and the list of tracked rounds of a HeightVoteSet.

import (
	"fmt"
	"sort"
	"strings"
)

// VerifC18TryLock reports whether the height vote set's mutex could be taken (and releases it).
func (hvs *HeightVoteSet) VerifC18TryLock() bool {
	if hvs == nil {
		return true
	}
	if !hvs.mtx.TryLock() {
		return false
	}
	hvs.mtx.Unlock()
	return true
}

// VerifC18Rounds lists the rounds that have vote sets (sorted); requires the mutex to be free.
func (hvs *HeightVoteSet) VerifC18Rounds() []uint32 {
	if hvs == nil {
		return nil
	}
	hvs.mtx.Lock()
	defer hvs.mtx.Unlock()
	var out []uint32
	for r := range hvs.roundVoteSets {
		out = append(out, r)
	}
	sort.Slice(out, func(i, j int) bool { return out[i] < out[j] })
	return out
}

// VerifC18Claims is a read-only digest of the peer-influenced bookkeeping of the height vote set:
// the catch-up rounds granted to peers and the majority claims recorded in every round's vote sets.
func (hvs *HeightVoteSet) VerifC18Claims() (digest string, count int) {
	if hvs == nil {
		return "", 0
	}
	hvs.mtx.Lock()
	defer hvs.mtx.Unlock()
	var l []string
	for p, rs := range hvs.peerCatchupRounds {
		l = append(l, fmt.Sprintf("c:%s=%v", string(p), rs))
		count += 1000000 * len(rs)
	}
	for r, rvs := range hvs.roundVoteSets {
		if c := rvs.Prevotes.VerifC18Claims(); c != "" {
			l = append(l, fmt.Sprintf("r%d/pv:%s", r, c))
		}
		if c := rvs.Precommits.VerifC18Claims(); c != "" {
			l = append(l, fmt.Sprintf("r%d/pc:%s", r, c))
		}
		count += rvs.Prevotes.VerifC18ClaimCount() + rvs.Precommits.VerifC18ClaimCount()
	}
	sort.Strings(l)
	return strings.Join(l, " "), count
}

// VerifC18Retained counts what the height vote set keeps per height: the rounds it tracks, the
// catch-up rounds granted to each peer, and the majority claims / per-block tallies of all its vote sets.
func (hvs *HeightVoteSet) VerifC18Retained() (rounds int, catchup map[string]int, claims int, blockTallies int) {
	catchup = map[string]int{}
	if hvs == nil {
		return
	}
	hvs.mtx.Lock()
	defer hvs.mtx.Unlock()
	rounds = len(hvs.roundVoteSets)
	for p, rs := range hvs.peerCatchupRounds {
		catchup[string(p)] = len(rs)
	}
	for _, rvs := range hvs.roundVoteSets {
		for _, vs := range []interface{ VerifC18ClaimCounts() (int, int) }{rvs.Prevotes, rvs.Precommits} {
			c, b := vs.VerifC18ClaimCounts()
			claims += c
			blockTallies += b
		}
	}
	return
}
