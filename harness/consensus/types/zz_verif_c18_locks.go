//go:build verif

package types

// Access-only helpers for check C18: lock probe and the list of tracked rounds of a HeightVoteSet.

import "sort"

// VerifC18TryLock reports whether the height vote set's mutex could be taken (and releases it).
func (hvs *HeightVoteSet) VerifC18TryLock() bool {
	if hvs == nil {
		return true
	}
	if !hvs.mtx.TryLock() {
		return false
	}
	hvs.mtx.Unlock()
	return true
}

// VerifC18Rounds lists the rounds that have vote sets (sorted); requires the mutex to be free.
func (hvs *HeightVoteSet) VerifC18Rounds() []uint32 {
	if hvs == nil {
		return nil
	}
	hvs.mtx.Lock()
	defer hvs.mtx.Unlock()
	var out []uint32
	for r := range hvs.roundVoteSets {
		out = append(out, r)
	}
	sort.Slice(out, func(i, j int) bool { return out[i] < out[j] })
	return out
}
