//go:build verif

// Access for check C15 (consensus WAL codec, search and repair). Only thin wrappers around
// unexported identifiers; no logic that decides the property lives here.
package consensus

import (
	"time"

	cstypes "github.com/kardiachain/go-kardia/consensus/types"
	auto "github.com/kardiachain/go-kardia/lib/autofile"
	"github.com/kardiachain/go-kardia/lib/p2p"
)

// VerifC15MaxMsgSizeBytes is the WAL record payload limit enforced by WALEncoder / WALDecoder.
const VerifC15MaxMsgSizeBytes = maxMsgSizeBytes

// VerifC15TimeoutInfo builds the (unexported) timeout WAL message.
func VerifC15TimeoutInfo(d time.Duration, height uint64, round uint32, step uint8) WALMessage {
	return timeoutInfo{Duration: d, Height: height, Round: round, Step: cstypes.RoundStepType(step)}
}

// VerifC15MsgInfo builds the (unexported) peer/own message WAL record.
func VerifC15MsgInfo(m Message, peerID string) WALMessage {
	return msgInfo{Msg: m, PeerID: p2p.ID(peerID)}
}

// VerifC15RepairWalFile calls the unexported WAL repair used by ConsensusState.OnStart.
func VerifC15RepairWalFile(src, dst string) error {
	return repairWalFile(src, dst)
}

// verifC15HookWriter forwards every write of the WAL encoder to the group unchanged and then tells
// the checker, so that each underlying Group.Write is a scheduling point at which the checker may
// run what the background tickers run (flush, head-size check).
type verifC15HookWriter struct {
	g    *auto.Group
	hook func(g *auto.Group, n int)
}

func (w *verifC15HookWriter) Write(p []byte) (int, error) {
	n, err := w.g.Write(p)
	if err == nil && w.hook != nil {
		w.hook(w.g, n)
	}
	return n, err
}

// VerifC15NewWALHooked is NewWAL with the encoder writing through verifC15HookWriter.
func VerifC15NewWALHooked(walFile string, hook func(g *auto.Group, n int), groupOptions ...func(*auto.Group)) (*BaseWAL, error) {
	wal, err := NewWAL(walFile, groupOptions...)
	if err != nil {
		return nil, err
	}
	wal.enc = NewWALEncoder(&verifC15HookWriter{g: wal.group, hook: hook})
	return wal, nil
}
