//go:build verif

// Access for check C15 (consensus WAL codec, search and repair). Only thin wrappers around
// unexported identifiers; no logic that decides the property lives here.
package consensus

import (
	"time"

	cstypes "github.com/kardiachain/go-kardia/consensus/types"
	"github.com/kardiachain/go-kardia/lib/p2p"
)

// VerifC15MaxMsgSizeBytes is the WAL record payload limit enforced by WALEncoder / WALDecoder.
const VerifC15MaxMsgSizeBytes = maxMsgSizeBytes

// VerifC15TimeoutInfo builds the (unexported) timeout WAL message.
func VerifC15TimeoutInfo(d time.Duration, height uint64, round uint32, step uint8) WALMessage {
	return timeoutInfo{Duration: d, Height: height, Round: round, Step: cstypes.RoundStepType(step)}
}

// VerifC15MsgInfo builds the (unexported) peer/own message WAL record.
func VerifC15MsgInfo(m Message, peerID string) WALMessage {
	return msgInfo{Msg: m, PeerID: p2p.ID(peerID)}
}

// VerifC15RepairWalFile calls the unexported WAL repair used by ConsensusState.OnStart.
func VerifC15RepairWalFile(src, dst string) error {
	return repairWalFile(src, dst)
}
