//go:build verif

package fetcher

// Access-only helpers for check C18 (/verif/checks/c18): the transaction fetcher behind the tx-pool
// reactor, driven deterministically. Exposes: the injectable clock / deterministic iteration / step
// notification the package already has for its own tests (unexported fields), a start of the real
// loop() under a recover that reports the panic instead of killing the process (in production the
// goroutine has no recover: the checker counts every such panic as a violation), a canonical dump of
// the bookkeeping maps and the filter Notify applies before it wakes the loop. No logic that decides
// the property lives here.

import (
	mrand "math/rand"
	"runtime/debug"
	"sort"
	"time"

	"github.com/kardiachain/go-kardia/lib/common"
	"github.com/kardiachain/go-kardia/lib/mclock"
)

// VerifC18Instrument installs a clock, a deterministic iteration order and an (unbuffered) step
// channel on which the loop reports every completed iteration. Call before the loop starts.
func VerifC18Instrument(f *TxFetcher, clock mclock.Clock, rnd *mrand.Rand) chan struct{} {
	f.clock = clock
	f.rand = rnd
	f.step = make(chan struct{})
	return f.step
}

// VerifC18RunLoop is Start() with a recover around the real loop.
func VerifC18RunLoop(f *TxFetcher, onPanic func(p interface{}, stack string)) {
	go func() {
		defer func() {
			if p := recover(); p != nil {
				onPanic(p, string(debug.Stack()))
			}
		}()
		f.loop()
	}()
}

// VerifC18WouldNotify tells whether Notify would hand these hashes to the loop (its pre-filter:
// unknown to the pool and not remembered as underpriced).
func VerifC18WouldNotify(f *TxFetcher, hashes []common.Hash) bool {
	for _, h := range hashes {
		if !f.hasTx(h) && !f.underpriced.Contains(h) {
			return true
		}
	}
	return false
}

// VerifC18Req is one in-flight request.
type VerifC18Req struct {
	Hashes   []string // in request order; nil for a timed-out ("dangling") request
	Dangling bool
	Stolen   []string
	AgeMs    int64
}

// VerifC18Dump is a canonical copy of the fetcher's bookkeeping. The caller guarantees that the loop
// is idle (blocked in its select).
type VerifC18Dump struct {
	Waitlist    map[string][]string // hash -> peers
	WaitAgeMs   map[string]int64    // hash -> age
	Waitslots   map[string][]string // peer -> hashes
	Announces   map[string][]string // peer -> hashes
	Announced   map[string][]string // hash -> peers
	Fetching    map[string]string   // hash -> peer
	Requests    map[string]VerifC18Req
	Alternates  map[string][]string // hash -> peers
	Underpriced []string
}

func verifC18Set(m map[string]struct{}) []string {
	out := make([]string, 0, len(m))
	for k := range m {
		out = append(out, k)
	}
	sort.Strings(out)
	return out
}

func verifC18HSet(m map[common.Hash]struct{}, name func(common.Hash) string) []string {
	out := make([]string, 0, len(m))
	for k := range m {
		out = append(out, name(k))
	}
	sort.Strings(out)
	return out
}

// VerifC18DumpState copies the maps; name maps a hash to the caller's label.
func VerifC18DumpState(f *TxFetcher, name func(common.Hash) string) *VerifC18Dump {
	now := f.clock.Now()
	d := &VerifC18Dump{Waitlist: map[string][]string{}, WaitAgeMs: map[string]int64{}, Waitslots: map[string][]string{}, Announces: map[string][]string{},
		Announced: map[string][]string{}, Fetching: map[string]string{}, Requests: map[string]VerifC18Req{}, Alternates: map[string][]string{}}
	for h, ps := range f.waitlist {
		d.Waitlist[name(h)] = verifC18Set(ps)
	}
	for h, t := range f.waittime {
		d.WaitAgeMs[name(h)] = int64(time.Duration(now-t) / time.Millisecond)
	}
	for p, hs := range f.waitslots {
		d.Waitslots[p] = verifC18HSet(hs, name)
	}
	for p, hs := range f.announces {
		d.Announces[p] = verifC18HSet(hs, name)
	}
	for h, ps := range f.announced {
		d.Announced[name(h)] = verifC18Set(ps)
	}
	for h, p := range f.fetching {
		d.Fetching[name(h)] = p
	}
	for p, r := range f.requests {
		vr := VerifC18Req{Dangling: r.hashes == nil, AgeMs: int64(time.Duration(now-r.time) / time.Millisecond), Stolen: verifC18HSet(r.stolen, name)}
		for _, h := range r.hashes {
			vr.Hashes = append(vr.Hashes, name(h))
		}
		d.Requests[p] = vr
	}
	for h, ps := range f.alternates {
		d.Alternates[name(h)] = verifC18Set(ps)
	}
	for _, x := range f.underpriced.ToSlice() {
		d.Underpriced = append(d.Underpriced, name(x.(common.Hash)))
	}
	sort.Strings(d.Underpriced)
	return d
}

// VerifC18WrapFetch replaces the fetchTxs callback by wrap(original). The callback is called by the
// request goroutines the loop spawns in scheduleFetches (`go func(peer, hashes) { f.fetchTxs(...) }`),
// which have no synchronisation with the reactor's Receive / RemovePeer: the checker's wrapper can hold
// such a call at a gate (a delayed thread) and recovers a panic of the real callback (the goroutine has
// no recover in production; the wrapper is the goroutine body's callee, so this observes exactly the
// panic that would kill the process). Call before the loop starts.
func VerifC18WrapFetch(f *TxFetcher, wrap func(orig func(string, []common.Hash) error) func(string, []common.Hash) error) {
	f.fetchTxs = wrap(f.fetchTxs)
}
