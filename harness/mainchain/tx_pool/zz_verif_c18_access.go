//go:build verif

package tx_pool

// Access-only helpers for check C18: lock probes and the reactor's message decoder.

import (
	"github.com/kardiachain/go-kardia/kai/events"
	"github.com/kardiachain/go-kardia/mainchain/fetcher"
)

// VerifC18TryLock reports whether the pool's mutex could be taken (and releases it again).
func (pool *TxPool) VerifC18TryLock() bool {
	if !pool.mu.TryLock() {
		return false
	}
	pool.mu.Unlock()
	return true
}

// VerifC18TryLock reports whether the reactor's mutex and its peer set lock are free.
func (txR *Reactor) VerifC18TryLock() bool {
	if !txR.mtx.TryLock() {
		return false
	}
	txR.mtx.Unlock()
	if !txR.peers.lock.TryLock() {
		return false
	}
	txR.peers.lock.Unlock()
	return true
}

// VerifC18Decode is the reactor's decodeMsg.
func VerifC18Decode(bz []byte) (interface{}, error) { return decodeMsg(bz) }

// VerifC18Known reports whether the reactor has the peer registered (AddPeer happened).
func (txR *Reactor) VerifC18Known(id string) bool {
	txR.peers.lock.RLock()
	defer txR.peers.lock.RUnlock()
	for k := range txR.peers.peers {
		if string(k) == id {
			return true
		}
	}
	return false
}

// VerifC18Fetcher is the reactor's transaction fetcher.
func (txR *Reactor) VerifC18Fetcher() *fetcher.TxFetcher { return txR.txFetcher }

// VerifC18StartGuarded does what OnStart does (subscribe to the pool's new-transaction feed, start the
// fetcher) with the fetcher's real loop under a recover that reports instead of killing the process.
// The reactor itself is not marked running (Receive, AddPeer and RemovePeer do not look at that flag).
func (txR *Reactor) VerifC18StartGuarded(onPanic func(p interface{}, stack string)) {
	txR.txsCh = make(chan events.NewTxsEvent, txChanSize)
	txR.txsSub = txR.txpool.SubscribeNewTxsEvent(txR.txsCh)
	fetcher.VerifC18RunLoop(txR.txFetcher, onPanic)
}

// VerifC18StopGuarded is OnStop.
func (txR *Reactor) VerifC18StopGuarded() { txR.OnStop() }
