//go:build verif

package tx_pool

// Access-only helpers for check C18: lock probes and the reactor's message decoder.

// VerifC18TryLock reports whether the pool's mutex could be taken (and releases it again).
func (pool *TxPool) VerifC18TryLock() bool {
	if !pool.mu.TryLock() {
		return false
	}
	pool.mu.Unlock()
	return true
}

// VerifC18TryLock reports whether the reactor's mutex and its peer set lock are free.
func (txR *Reactor) VerifC18TryLock() bool {
	if !txR.mtx.TryLock() {
		return false
	}
	txR.mtx.Unlock()
	if !txR.peers.lock.TryLock() {
		return false
	}
	txR.peers.lock.Unlock()
	return true
}

// VerifC18Decode is the reactor's decodeMsg.
func VerifC18Decode(bz []byte) (interface{}, error) { return decodeMsg(bz) }

// VerifC18Known reports whether the reactor has the peer registered (AddPeer happened).
func (txR *Reactor) VerifC18Known(id string) bool {
	txR.peers.lock.RLock()
	defer txR.peers.lock.RUnlock()
	for k := range txR.peers.peers {
		if string(k) == id {
			return true
		}
	}
	return false
}
