//go:build verif

package tx_pool

import "github.com/kardiachain/go-kardia/types"

// VerifC06ResetTo makes the pool process a head change to `head` and waits until it is done (the
// production path does the same asynchronously from the chain head feed). Access only (C06).
func (pool *TxPool) VerifC06ResetTo(head *types.Header) {
	<-pool.requestReset(nil, head)
}
