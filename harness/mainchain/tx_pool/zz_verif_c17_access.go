//go:build verif

package tx_pool

import (
	"sort"

	"github.com/kardiachain/go-kardia/lib/common"
	"github.com/kardiachain/go-kardia/types"
)

// Access for check C17 (transaction pool). Nothing here decides the property: the functions only
// wait for the pool's own reorg run, copy internal indexes out under the pool lock, and write the
// local-transaction journal the way the pool's own loop does on its rejournal tick.

// VerifC17Reset makes the pool process a head change to whatever the chain now reports as its
// current block/state and returns when the reorg run has finished (the idiom the repository's own
// tests use: <-pool.requestReset(nil, nil)).
func (pool *TxPool) VerifC17Reset() {
	<-pool.requestReset(nil, nil)
}

// VerifC17View is a copy of the pool's internal indexes taken under pool.mu.
type VerifC17View struct {
	AllLocals  []common.Hash // lookup index, local half
	AllRemotes []common.Hash // lookup index, remote half
	AllSlots   int
	Priced     []common.Hash    // every entry of the remote price heap (stale ones included)
	BeatOrder  []common.Address // addresses with a heartbeat, oldest first (ties by address)
}

// VerifC17View copies the internal indexes.
func (pool *TxPool) VerifC17View() *VerifC17View {
	pool.mu.Lock()
	defer pool.mu.Unlock()
	v := &VerifC17View{}
	pool.all.Range(func(h common.Hash, tx *types.Transaction, local bool) bool {
		if local {
			v.AllLocals = append(v.AllLocals, h)
		} else {
			v.AllRemotes = append(v.AllRemotes, h)
		}
		return true
	}, true, true)
	v.AllSlots = pool.all.Slots()
	for _, tx := range *pool.priced.remotes {
		v.Priced = append(v.Priced, tx.Hash())
	}
	for a := range pool.beats {
		v.BeatOrder = append(v.BeatOrder, a)
	}
	sort.Slice(v.BeatOrder, func(i, j int) bool {
		bi, bj := pool.beats[v.BeatOrder[i]], pool.beats[v.BeatOrder[j]]
		if !bi.Equal(bj) {
			return bi.Before(bj)
		}
		return string(v.BeatOrder[i][:]) < string(v.BeatOrder[j][:])
	})
	return v
}

// VerifC17JournalRotate writes the pool's current local transactions to a journal file at path,
// exactly as the pool's loop does on its rejournal tick (journal.rotate(pool.local()) under the
// pool lock), and closes the file. The pool's own journal (if any) is not touched.
func (pool *TxPool) VerifC17JournalRotate(path string) error {
	pool.mu.Lock()
	defer pool.mu.Unlock()
	j := newTxJournal(path)
	if err := j.rotate(pool.local()); err != nil {
		return err
	}
	return j.close()
}

// VerifC17Step is one critical section of a coalesced round: either the locked section of a
// submission (the pool's own addTxsLocked) or a head-reset request.
type VerifC17Step struct {
	Txs   []*types.Transaction
	Local bool
	Reset bool
}

// VerifC17Coalesced drives the pool's real scheduleReorgLoop into its coalescing branch: it takes
// pool.mu, requests a reorg run with an empty account set (the loop launches that run at once; it
// blocks on the lock held here, exactly as a run blocks behind a submission's locked section), and
// then executes the given critical sections, each followed by its own request to the loop
// (requestPromoteExecutables / requestReset). Because a run is in flight, the loop merges all these
// requests into ONE following run. The lock is then released: the blocked run executes (with its
// stale, empty account set), the loop launches the merged run, and the call returns when that run
// is done. Only the pool's own functions run; nothing here judges anything.
func (pool *TxPool) VerifC17Coalesced(steps []VerifC17Step) [][]error {
	var errs [][]error
	pool.mu.Lock()
	first := pool.requestPromoteExecutables(newAccountSet(pool.signer))
	var last chan struct{}
	func() {
		defer pool.mu.Unlock()
		for _, st := range steps {
			if st.Reset {
				last = pool.requestReset(nil, nil)
				errs = append(errs, nil)
				continue
			}
			es, dirty := pool.addTxsLocked(st.Txs, st.Local && !pool.config.NoLocals)
			errs = append(errs, es)
			last = pool.requestPromoteExecutables(dirty)
		}
	}()
	<-first
	if last != nil {
		<-last
	}
	return errs
}
