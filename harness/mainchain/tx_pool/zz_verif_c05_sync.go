//go:build verif

package tx_pool

import "github.com/kardiachain/go-kardia/types"

// VerifC05ResetTo makes the pool process a head change to `head` and waits until it is done
// (the production path does the same asynchronously from the chain head feed).
func (pool *TxPool) VerifC05ResetTo(head *types.Header) {
	<-pool.requestReset(nil, head)
}
