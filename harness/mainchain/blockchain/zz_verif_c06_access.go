//go:build verif

package blockchain

import "github.com/kardiachain/go-kardia/kai/state/snapshot"

// Access only (C06). Nothing in the repository calls these and they decide nothing.

// VerifC06HasSnapshots tells whether this chain was constructed with a snapshot tree.
func (bc *BlockChain) VerifC06HasSnapshots() bool { return bc.snaps != nil }

// VerifC06Release frees the off-heap caches and the snapshot generator goroutine of a chain object
// that the checker is about to drop (one chain object per enumerated execution).
func (bc *BlockChain) VerifC06Release() {
	if bc.snaps != nil {
		snapshot.VerifC06Release(bc.snaps, !bc.stopping.Load())
	}
	if bc.triedb != nil {
		bc.triedb.VerifC06Release()
	}
}
