//go:build verif

package blockchain

import (
	"errors"

	"github.com/kardiachain/go-kardia/kai/kaidb/memorydb"
	"github.com/kardiachain/go-kardia/kai/rawdb"
	"github.com/kardiachain/go-kardia/kai/state/snapshot"
	"github.com/kardiachain/go-kardia/lib/common"
	"github.com/kardiachain/go-kardia/lib/crypto"
	"github.com/kardiachain/go-kardia/trie"
)

// Access only (C06). Nothing in the repository calls these and they decide nothing.

// VerifC06HasSnapshots tells whether this chain was constructed with a snapshot tree.
func (bc *BlockChain) VerifC06HasSnapshots() bool { return bc.snaps != nil }

// VerifC06Release frees the off-heap caches and the snapshot generator goroutine of a chain object
// that the checker is about to drop (one chain object per enumerated execution).
func (bc *BlockChain) VerifC06Release() {
	if bc.snaps != nil {
		snapshot.VerifC06Release(bc.snaps, !bc.stopping.Load())
	}
	if bc.triedb != nil {
		bc.triedb.VerifC06Release()
	}
}

// VerifC06FlattenSnapshot calls the snapshot tree's public Cap(root, 0): every diff layer up to root is merged into
// the disk layer (what a long-running node experiences once it holds more than 128 layers and the accumulator
// exceeds its memory limit, or on every block while the background generator runs). The tree is an unexported
// field of BlockChain; access only.
func (bc *BlockChain) VerifC06FlattenSnapshot(root common.Hash) error {
	if bc.snaps == nil {
		return nil
	}
	return bc.snaps.Cap(root, 0)
}

// VerifC06HoldSnapshotGeneration puts the node into the state "snapshot is being (re)generated and the generator has not
// covered any account yet", deterministically: the chain's snapshot tree is replaced by one over the SAME database whose
// generator is given a node database that does not contain the head root, so it stops at its first step ("Trie missing,
// state snapshotting paused", generate.go) with an empty generation marker; every account / slot read of the disk layer
// then answers ErrNotCoveredYet, as on a production node (SnapshotWait false) whose background generation has not reached
// the account. Construction only (public snapshot.New / Rebuild); decides nothing.
func (bc *BlockChain) VerifC06HoldSnapshotGeneration() error {
	if bc.snaps == nil {
		return errors.New("chain has no snapshot tree")
	}
	root := rawdb.ReadAppHash(bc.db, bc.CurrentBlock().Height())
	snapshot.VerifC06Abandon(bc.snaps)
	// a FIRST generation: no snapshot data in the database yet (with the data of a finished snapshot still present the
	// generator would re-validate it against the root by range proof and finish without ever opening the trie)
	batch := bc.db.NewBatch()
	for _, pl := range []struct {
		prefix []byte
		n      int
	}{{rawdb.SnapshotAccountPrefix, 1 + common.HashLength}, {rawdb.SnapshotStoragePrefix, 1 + 2*common.HashLength}} {
		it := bc.db.NewIterator(pl.prefix, nil)
		for it.Next() {
			if len(it.Key()) == pl.n {
				batch.Delete(append([]byte{}, it.Key()...))
			}
		}
		it.Release()
	}
	rawdb.DeleteSnapshotRoot(batch)
	rawdb.DeleteSnapshotJournal(batch)
	rawdb.DeleteSnapshotGenerator(batch)
	if err := batch.Write(); err != nil {
		return err
	}
	snaps, err := snapshot.New(snapshot.Config{CacheSize: bc.cacheConfig.SnapshotLimit, AsyncBuild: true}, bc.db, trie.NewDatabase(memorydb.New()), root)
	if err != nil {
		return err
	}
	if !snapshot.VerifC06Generating(snaps) {
		snaps.Rebuild(root)
	}
	bc.snaps = snaps
	return nil
}

// VerifC06SnapshotProbe reports whether the snapshot is still being generated and whether an account read at the head
// answers ErrNotCoveredYet (public Tree.Snapshot / Snapshot.Account).
func (bc *BlockChain) VerifC06SnapshotProbe(addr common.Address) (generating, notCovered bool) {
	if bc.snaps == nil {
		return false, false
	}
	generating = snapshot.VerifC06Generating(bc.snaps)
	if s := bc.snaps.Snapshot(rawdb.ReadAppHash(bc.db, bc.CurrentBlock().Height())); s != nil {
		_, err := s.Account(crypto.Keccak256Hash(addr.Bytes()))
		notCovered = errors.Is(err, snapshot.ErrNotCoveredYet)
	}
	return generating, notCovered
}
