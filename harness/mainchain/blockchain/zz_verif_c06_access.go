//go:build verif

package blockchain

import (
	"github.com/kardiachain/go-kardia/kai/state/snapshot"
	"github.com/kardiachain/go-kardia/lib/common"
)

// Access only (C06). Nothing in the repository calls these and they decide nothing.

// VerifC06HasSnapshots tells whether this chain was constructed with a snapshot tree.
func (bc *BlockChain) VerifC06HasSnapshots() bool { return bc.snaps != nil }

// VerifC06Release frees the off-heap caches and the snapshot generator goroutine of a chain object
// that the checker is about to drop (one chain object per enumerated execution).
func (bc *BlockChain) VerifC06Release() {
	if bc.snaps != nil {
		snapshot.VerifC06Release(bc.snaps, !bc.stopping.Load())
	}
	if bc.triedb != nil {
		bc.triedb.VerifC06Release()
	}
}

// VerifC06FlattenSnapshot calls the snapshot tree's public Cap(root, 0): every diff layer up to root is merged into
// the disk layer (what a long-running node experiences once it holds more than 128 layers and the accumulator
// exceeds its memory limit, or on every block while the background generator runs). The tree is an unexported
// field of BlockChain; access only.
func (bc *BlockChain) VerifC06FlattenSnapshot(root common.Hash) error {
	if bc.snaps == nil {
		return nil
	}
	return bc.snaps.Cap(root, 0)
}
