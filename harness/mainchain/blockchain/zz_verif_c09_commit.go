//go:build verif

package blockchain

import (
	"github.com/kardiachain/go-kardia/kai/state"
	stypes "github.com/kardiachain/go-kardia/mainchain/staking/types"
	"github.com/kardiachain/go-kardia/types"
)

// VerifC09CommitBlock is the unexported commitBlock, nothing more: the C09 checker hands it a state
// of its own (a copy of the chain's head state), the transactions of a small block and a header
// whose gas limit it chose, and inspects the state and the returned BlockInfo afterwards.
// Access only; nothing in the repository calls it.
func (bo *BlockOperations) VerifC09CommitBlock(st *state.StateDB, txs types.Transactions, header *types.Header,
	lastCommit stypes.LastCommitInfo, byzVals []stypes.Evidence) ([]*types.Validator, *types.BlockInfo, error) {
	return bo.commitBlock(st, txs, header, lastCommit, byzVals)
}
