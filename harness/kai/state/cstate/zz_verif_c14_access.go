//go:build verif

package cstate

import (
	"github.com/kardiachain/go-kardia/lib/log"
	"github.com/kardiachain/go-kardia/types"
)

// Access only (C14): the two unexported steps BlockExecutor.ApplyBlock performs between the
// application's answer and Store.Save. Nothing in the repository calls these wrappers and they
// decide nothing.

var verifC14Logger = log.New()

// VerifC14UpdateState is updateState (execution.go) with the package's discard logger.
func VerifC14UpdateState(state LatestBlockState, blockID types.BlockID, header *types.Header, validatorUpdates []*types.Validator) (LatestBlockState, error) {
	return updateState(verifC14Logger, state, blockID, header, validatorUpdates)
}

// VerifC14CalculateValidatorSetUpdates is calculateValidatorSetUpdates (execution.go).
func VerifC14CalculateValidatorSetUpdates(lastVals []*types.Validator, vals []*types.Validator) []*types.Validator {
	return calculateValidatorSetUpdates(lastVals, vals)
}
