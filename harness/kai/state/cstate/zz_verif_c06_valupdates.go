//go:build verif

package cstate

import (
	"github.com/kardiachain/go-kardia/lib/log"
	"github.com/kardiachain/go-kardia/types"
)

// Access only (C06): the two unexported steps BlockExecutor.ApplyBlock performs between the
// application's validator report and Store.Save, chained exactly like ApplyBlock chains them.
// Nothing in the repository calls this wrapper and it decides nothing.

var verifC06Logger = log.New()

// VerifC06ApplyValidatorReport runs calculateValidatorSetUpdates(state.NextValidators.Validators, report)
// followed by updateState(state, blockID, header, updates) (execution.go, ApplyBlock) and returns the
// change list handed to the validator set and the resulting state.
func VerifC06ApplyValidatorReport(state LatestBlockState, blockID types.BlockID, header *types.Header, report []*types.Validator) ([]*types.Validator, LatestBlockState, error) {
	updates := calculateValidatorSetUpdates(state.NextValidators.Validators, report)
	st, err := updateState(verifC06Logger, state, blockID, header, updates)
	return updates, st, err
}
