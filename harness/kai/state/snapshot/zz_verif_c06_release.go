//go:build verif

package snapshot

import "github.com/VictoriaMetrics/fastcache"

// VerifC06Release shuts a short-lived in-memory snapshot tree down: Disable() (public API) stops a
// generator goroutine that otherwise waits forever for an abort request, and the read cache of the
// disk layer(s) (fastcache: off-heap chunks that only Reset returns to the allocator) is reset.
// The C06 checker builds one node per enumerated execution; without this every node with snapshots
// would leak a goroutine and its cache chunks. Access only: nothing in the repository calls it, the
// checker calls it only AFTER all observations of a node were taken, and it decides nothing.
// disable=false is for a tree that was already journalled (BlockChain.Stop): its generator is gone and Disable would
// wait for it forever.
func VerifC06Release(t *Tree, disable bool) {
	if t == nil {
		return
	}
	var caches []*fastcache.Cache
	t.lock.Lock()
	for _, l := range t.layers {
		if dl, ok := l.(*diskLayer); ok && dl.cache != nil {
			caches = append(caches, dl.cache)
		}
	}
	t.lock.Unlock()
	if disable {
		t.Disable()
	}
	for _, c := range caches {
		c.Reset()
	}
}

// VerifC06Generating tells whether the tree's disk layer is still being generated (genMarker != nil). Access only.
func VerifC06Generating(t *Tree) bool {
	if t == nil {
		return false
	}
	t.lock.RLock()
	defer t.lock.RUnlock()
	for _, l := range t.layers {
		if dl, ok := l.(*diskLayer); ok {
			dl.lock.RLock()
			g := dl.genMarker != nil
			dl.lock.RUnlock()
			if g {
				return true
			}
		}
	}
	return false
}

// VerifC06Abandon stops the generator goroutine of a tree that is being replaced (the same hand-shake Disable uses) and
// returns its cache chunks, WITHOUT touching the database (Disable would mark the snapshot disabled on disk).
func VerifC06Abandon(t *Tree) {
	if t == nil {
		return
	}
	t.lock.Lock()
	defer t.lock.Unlock()
	for _, l := range t.layers {
		if dl, ok := l.(*diskLayer); ok {
			if dl.genAbort != nil {
				abort := make(chan *generatorStats)
				dl.genAbort <- abort
				<-abort
			}
			if dl.cache != nil {
				dl.cache.Reset()
			}
		}
	}
}
