//go:build verif

package snapshot

import "github.com/VictoriaMetrics/fastcache"

// VerifReleaseC08 shuts a short-lived in-memory snapshot tree down: Disable() (public API) stops the
// generator goroutine that otherwise waits forever for an abort request, and the read cache of the
// disk layer(s) (fastcache: off-heap chunks that only Reset returns to the allocator) is reset.
// The C08 checker builds one tree per enumerated program; without this every tree would leak a
// goroutine and its cache chunks. Access only: nothing in the repository calls it and it decides
// nothing.
func VerifReleaseC08(t *Tree) {
	if t == nil {
		return
	}
	var caches []*fastcache.Cache
	t.lock.Lock()
	for _, l := range t.layers {
		if dl, ok := l.(*diskLayer); ok && dl.cache != nil {
			caches = append(caches, dl.cache)
		}
	}
	t.lock.Unlock()
	t.Disable()
	for _, c := range caches {
		c.Reset()
	}
}

// VerifResetCachesC08 only resets the read cache of the disk layer(s) of a tree the checker is done
// with WITHOUT Disable(): used for the old tree after a Journal + reload round trip (Disable would
// mark the shared database "snapshot disabled" and, the generator having been stopped by Journal
// already, would block on its abort channel). Access only.
func VerifResetCachesC08(t *Tree) {
	if t == nil {
		return
	}
	t.lock.Lock()
	defer t.lock.Unlock()
	for _, l := range t.layers {
		if dl, ok := l.(*diskLayer); ok && dl.cache != nil {
			dl.cache.Reset()
		}
	}
}
