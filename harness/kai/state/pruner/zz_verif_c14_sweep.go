//go:build verif

package pruner

import (
	"time"

	"github.com/kardiachain/go-kardia/kai/kaidb"
	"github.com/kardiachain/go-kardia/lib/common"
)

// VerifSweep runs the sweep loop of the real prune() (the offline state pruner: every key the pruner takes for a
// hash-keyed trie node or contract code and does not find in its state bloom is deleted) over db. keep lists the keys
// of the live state (entered in the bloom as the real pruner does while walking the target state). The tail of
// prune() that caps and journals the snapshot tree is not run: it is reached with a nil tree, after the sweep's last
// batch has been written, and the resulting panic is swallowed here.
func VerifSweep(db kaidb.Database, keep [][]byte) (err error) {
	bloom, err := newStateBloomWithSize(1)
	if err != nil {
		return err
	}
	for _, k := range keep {
		bloom.Put(k, nil)
	}
	defer func() { recover() }()
	return prune(nil, common.Hash{}, db, bloom, "", map[common.Hash]struct{}{}, time.Now())
}
