//go:build verif

package state

import (
	"github.com/kardiachain/go-kardia/lib/common"
	"github.com/kardiachain/go-kardia/trie"
)

// VerifC09AccountLeaves hands out every leaf of the account trie as it currently stands in memory
// (callers run IntermediateRoot first so that pending objects are written into it): the hashed
// key, its preimage (the address, when the secure trie still knows it) and the raw RLP value.
// Access only: the C09 checker decodes the values itself and sums the balances of ALL accounts of
// the state instead of a watch list. Nothing in the repository calls it; it does not modify the
// state (node resolution inside the iterator works on its own copies).
func (s *StateDB) VerifC09AccountLeaves(visit func(hashedKey, preimage, value []byte)) error {
	it := trie.NewIterator(s.trie.NodeIterator(nil))
	for it.Next() {
		visit(common.CopyBytes(it.Key), common.CopyBytes(s.trie.GetKey(it.Key)), common.CopyBytes(it.Value))
	}
	return it.Err
}
