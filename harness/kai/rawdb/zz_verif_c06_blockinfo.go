//go:build verif

package rawdb

import (
	"github.com/kardiachain/go-kardia/kai/kaidb"
	"github.com/kardiachain/go-kardia/lib/common"
)

// VerifC06ReadBlockInfoRLP returns the stored block-info record (gas used, rewards, receipts, bloom)
// of a block exactly as written by WriteBlockInfo. ReadBlockInfo cannot be used for blocks in which
// a transaction was skipped (DeriveFields rejects a receipt/transaction count mismatch and the
// accessor then returns nil). Access only (C06).
func VerifC06ReadBlockInfoRLP(db kaidb.Reader, hash common.Hash, height uint64) []byte {
	data, _ := db.Get(blockInfoKey(height, hash))
	return data
}
