#!/bin/bash
# run.sh <Cxx> [quick|thorough] [extra flags...]   |   run.sh <Cxx> --replay <file>
# Rebuilds the checker from the current working tree of $VERIF_REPO (default /repo) with the
# verification overlay (tag verif), runs it, validates the evidence file.
set -u
ID=${1:?usage: run.sh <Cxx> [quick|thorough]}
shift
TIER=quick
if [ "${1:-}" = quick ] || [ "${1:-}" = thorough ]; then TIER=$1; shift; fi
export GOFLAGS=-mod=mod GOPROXY=off GOSUMDB=off GOTOOLCHAIN=local
export VERIF_DIR=$(cd "$(dirname "$0")" && pwd)
cd "$VERIF_DIR"
REPO=${VERIF_REPO:-/repo}
export VERIF_REPO=$REPO
id=$(echo "$ID" | tr 'A-Z' 'a-z')
BDIR=$(python3 tools/mkbuild.py "$REPO" "$id") || { echo "MACHINERY-ERROR: mkbuild failed"; exit 2; }
mkdir -p "$BDIR/bin"
RACE=""
if [ "${VERIF_RACE:-}" = 1 ]; then RACE="-race"; fi
if ! go build $RACE -tags verif -overlay "$BDIR/overlay-$id.json" -modfile "$BDIR/go.mod" -o "$BDIR/bin/$id$RACE" "./checks/$id" 2> "$BDIR/build-$id.log"; then
  cat "$BDIR/build-$id.log"
  echo "MACHINERY-ERROR: build of checker $ID failed against $REPO"
  exit 2
fi
export VERIF_BDIR=$BDIR
# Free-running race pass (checks that have a RACEPASS marker): the same checker built with -race runs its
# concurrent body (<ID>_RACE_PASS=1: goroutines exercising the code on PRIVATE objects, no intended sharing);
# the detector's verdict is handed to the main run, which reports it like any other oracle. A cooperative
# exploration cannot see unsynchronised accesses to shared scratch state; the race detector sees them whatever the timing.
if [ -f "checks/$id/RACEPASS" ] && [ -z "$RACE" ]; then
  rp=1; for a in "$@"; do case "$a" in --replay|-replay) rp=0;; esac; done
  if [ $rp = 1 ]; then
    if go build -race -tags verif -overlay "$BDIR/overlay-$id.json" -modfile "$BDIR/go.mod" -o "$BDIR/bin/$id-race" "./checks/$id" 2> "$BDIR/build-$id-race.log"; then
      rm -f "$BDIR"/race-$id.*
      IDU=$(echo "$id" | tr 'a-z' 'A-Z')
      env "${IDU}_RACE_PASS=1" VERIF_NOEVIDENCE=1 VERIF_SUPERVISED=1 GORACE="exitcode=66 halt_on_error=1 log_path=$BDIR/race-$id" "$BDIR/bin/$id-race" -tier "$TIER" > "$BDIR/racepass-$id.out" 2>&1
      rrc=$?
      if [ $rrc = 66 ]; then export VERIF_RACE_PASS="race:$(ls "$BDIR"/race-$id.* 2>/dev/null | head -1)";
      elif [ $rrc = 0 ]; then export VERIF_RACE_PASS="clean";
      else export VERIF_RACE_PASS="failed:$rrc:$BDIR/racepass-$id.out"; fi
    else
      cat "$BDIR/build-$id-race.log"; echo "MACHINERY-ERROR: -race build of checker $ID failed"; exit 2
    fi
  fi
fi
EVID="$VERIF_DIR/evidence/$ID.json"
REPLAY=0
for a in "$@"; do case "$a" in --replay|-replay) REPLAY=1;; esac; done
ARGS=()
for a in "$@"; do if [ "$a" = "--replay" ]; then ARGS+=("-replay"); else ARGS+=("$a"); fi; done
"$BDIR/bin/$id$RACE" -tier "$TIER" "${ARGS[@]+"${ARGS[@]}"}"
rc=$?
if [ $REPLAY = 0 ] && [ "${VERIF_NOEVIDENCE:-}" != 1 ]; then
  if [ $rc = 0 ] || [ $rc = 1 ]; then
    PY=python3-vt; command -v $PY >/dev/null || PY=python3
    if ! $PY tools/validate_evidence.py "$EVID" "$ID"; then
      echo "MACHINERY-ERROR: evidence file $EVID invalid"
      [ $rc = 0 ] && rc=2
    fi
  fi
fi
exit $rc
